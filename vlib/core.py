"""Shared vocabulary of the checks: violations, statistics, fingerprints, step budget."""
import collections
import hashlib
import json
import os
import sys
import threading


class PropertyViolation(Exception):
    """Raised by an oracle when a clause of the property is contradicted by the implementation.

    ``clause`` is a short stable name of the clause of the property that failed, ``details`` is a
    JSON-serialisable explanation.  ``tags`` carries facts about the failing situation that the known-findings
    trigger predicates look at (never used to decide whether something *is* a violation).
    """

    def __init__(self, clause, details=None, tags=None):
        super().__init__(clause, details)
        self.clause = clause
        self.details = details if details is not None else {}
        self.tags = dict(tags or {})

    def __str__(self):
        return '%s :: %s' % (self.clause, json.dumps(jsonable(self.details), sort_keys=True)[:2000])


class HarnessError(Exception):
    """Something is wrong with the harness itself (never reported as a violation)."""


class StepBudgetExceeded(Exception):
    """The deterministic line budget of a guarded call ran out (the call is judged not to terminate)."""


def jsonable(x, depth=0):
    if depth > 12:
        return '<deep>'
    if x is None or isinstance(x, (bool, int, str)):
        return x
    if isinstance(x, float):
        if x != x or x in (float('inf'), float('-inf')):
            return repr(x)
        return x
    if isinstance(x, (list, tuple)):
        return [jsonable(i, depth + 1) for i in x]
    if isinstance(x, (set, frozenset)):
        return sorted((jsonable(i, depth + 1) for i in x), key=repr)
    if isinstance(x, dict):
        return {str(k): jsonable(v, depth + 1) for k, v in x.items()}
    return repr(x)[:200]


def canonical(case):
    return json.dumps(jsonable(case), sort_keys=True, separators=(',', ':'))


def fingerprint(case):
    return hashlib.sha1(canonical(case).encode()).hexdigest()[:14]


class Stats:
    """What one run (or one shard) actually explored."""

    def __init__(self):
        self.evaluations = 0            # oracle executions while generating / replaying corpus / enumerating
        self.shrink_evaluations = 0     # oracle executions spent shrinking a failure
        self.executions = 0             # implementation runs (>= evaluations when a case fans out)
        self.nontrivial = set()         # fingerprints of distinct non-trivial cases
        self.distinct = set()           # fingerprints of all cases
        self.hist = collections.Counter()
        self.known_hits = collections.Counter()
        self.excluded = collections.Counter()
        self.noops = 0
        self.steps = 0
        self.samples = []
        self.nontrivial_samples = []
        self.extra = {}
        self.exhaustive = []            # descriptions of finite sub-spaces that were enumerated completely
        self.shrinking = False

    def record(self, case, info, sample=True):
        info = info or {}
        if self.shrinking:
            self.shrink_evaluations += 1
            return
        self.evaluations += 1
        self.executions += int(info.get('executions', 1))
        fp = info.get('fingerprint') or fingerprint(case)
        self.distinct.add(fp)
        if info.get('nontrivial'):
            if fp not in self.nontrivial and len(self.nontrivial_samples) < 3 and sample:
                self.nontrivial_samples.append(jsonable(case))
            self.nontrivial.add(fp)
        elif len(self.samples) < 2 and sample:
            self.samples.append(jsonable(case))
        for label in info.get('classes', ()):
            self.hist[label] += 1
        for k, v in (info.get('excluded') or {}).items():
            self.excluded[k] += v
        self.noops += int(info.get('noops', 0))
        self.steps += int(info.get('steps', 0))
        for k, v in (info.get('counters') or {}).items():
            self.extra[k] = self.extra.get(k, 0) + v

    def to_json(self):
        return {
            'evaluations': self.evaluations, 'shrink_evaluations': self.shrink_evaluations,
            'executions': self.executions,
            'nontrivial': sorted(self.nontrivial), 'distinct': len(self.distinct),
            'hist': dict(self.hist), 'known_hits': dict(self.known_hits), 'excluded': dict(self.excluded),
            'noops': self.noops, 'steps': self.steps, 'samples': self.samples,
            'nontrivial_samples': self.nontrivial_samples, 'extra': self.extra,
            'exhaustive': self.exhaustive,
        }


def merge_stats(parts):
    out = {'evaluations': 0, 'shrink_evaluations': 0, 'executions': 0, 'nontrivial': set(), 'distinct': 0,
           'hist': collections.Counter(), 'known_hits': collections.Counter(),
           'excluded': collections.Counter(), 'noops': 0, 'steps': 0, 'samples': [], 'nontrivial_samples': [],
           'extra': {}, 'exhaustive': []}
    for p in parts:
        for k in ('evaluations', 'shrink_evaluations', 'executions', 'distinct', 'noops', 'steps'):
            out[k] += p[k]
        out['nontrivial'].update(p['nontrivial'])
        for k in ('hist', 'known_hits', 'excluded'):
            out[k].update(p[k])
        if len(out['samples']) < 2:
            out['samples'].extend(p['samples'][:1])
        if len(out['nontrivial_samples']) < 3:
            out['nontrivial_samples'].extend(p['nontrivial_samples'][:1])
        for k, v in p['extra'].items():
            if isinstance(v, (int, float)) and not isinstance(v, bool):
                out['extra'][k] = out['extra'].get(k, 0) + v
            else:
                out['extra'].setdefault(k, v)
        for e in p['exhaustive']:
            if e not in out['exhaustive']:
                out['exhaustive'].append(e)
    return out


# ----------------------------------------------------------------------------------------------------------
# Deterministic step budget (DESIGN 2.5): count "line" events executed inside <repo>/desper while a guarded
# call runs; beyond the budget the call is judged not to terminate.  No wall clock involved.

class StepBudget:
    def __init__(self, repo_prefix, budget):
        self.prefix = repo_prefix
        self.budget = budget
        self.count = 0
        self._cache = {}

    def _global(self, frame, event, arg):
        code = frame.f_code
        hit = self._cache.get(code)
        if hit is None:
            hit = code.co_filename.startswith(self.prefix)
            self._cache[code] = hit
        return self._local if hit else None

    def _local(self, frame, event, arg):
        if event == 'line':
            self.count += 1
            if self.count > self.budget:
                raise StepBudgetExceeded('more than %d lines executed inside desper' % self.budget)
        return self._local

    def run(self, fn, *args, **kwargs):
        old = sys.gettrace()
        sys.settrace(self._global)
        try:
            return fn(*args, **kwargs)
        finally:
            sys.settrace(old)


def repo_root():
    return os.path.realpath(os.environ.get('VERIF_REPO', '/repo'))


def desper_prefix():
    return os.path.join(repo_root(), 'desper') + os.sep


def with_budget(budget, fn, *args, **kwargs):
    """Run ``fn`` under a line budget; returns (result, lines_used). Raises StepBudgetExceeded."""
    sb = StepBudget(desper_prefix(), budget)
    res = sb.run(fn, *args, **kwargs)
    return res, sb.count


def innermost_in_repo(exc):
    """True when the innermost frame of the exception's traceback is code under test."""
    tb = exc.__traceback__
    last = None
    while tb is not None:
        last = tb
        tb = tb.tb_next
    if last is None:
        return False
    return os.path.realpath(last.tb_frame.f_code.co_filename).startswith(desper_prefix())


def raised_in_repo(exc):
    """True when any frame of the traceback below the harness lies in the code under test."""
    tb = exc.__traceback__
    pref = desper_prefix()
    while tb is not None:
        if os.path.realpath(tb.tb_frame.f_code.co_filename).startswith(pref):
            return True
        tb = tb.tb_next
    return False
