"""Shared interpreter + reference model for histories over desper.World (DESIGN section 3, "world-ops engine").

A case is plain data:

    {"classes": [{"bases": [..], "ev": int}, ...],
     "ops": [["create", id_sel, [class_ix, ...]], ["add", ent_ix, class_ix, reuse], ["remove", ent_ix, class_ix],
             ["delete", ent_ix], ["delete_now", ent_ix], ["process"], ["clear"], ["toggle"], ["probe"], ...]}

Operands are small indices resolved against the model's current state, so every list is interpretable.
The model: attached: id -> {exact type -> component}, pending: ids awaiting deferred deletion.
Oracles (selected by ``checks``): 'queries' (C01), 'lifecycle' (C02), 'deletion' (C05).
"""
import collections

import desper
from hypothesis import strategies as st

from vlib.core import PropertyViolation, with_budget, StepBudgetExceeded, raised_in_repo
from vlib.classes import (build_dag, add_class, has_diamond, EV_ADD, EV_REMOVE, EV_RENAMED, EV_PROBE, EV_FALSY, EV_EQ,
                          EV_UNHASH, EV_INSTANCE, EV_LEAN, declared, declares_anything)

EXPLICIT_IDS = [1, 2, 3, 4, 6, 'a', ('t', 1), -1, 0, True, 2.0, '', 9]
NEVER_USED = ['never-used', 10 ** 9]
PROCESS_BUDGET = 200000
REACTIONS = True      # generate callbacks that issue World operations re-entrantly (see Run.react_general)
# operand digit -> arm code: 5/16 no reaction, 7/16 one of the seven actions at the first lifecycle callback,
# 4/16 a reaction reserved for on_remove (8: deferred delete of the own entity, 11: immediate delete of another,
# 14: disabling dispatching)
ARM_TABLE = [0, 0, 0, 14, 15, 15, 8, 8, 1, 2, 3, 4, 5, 6, 7, 11]     # 15: batch reaction during a release


class Sentinel(desper.Processor):
    """Lowest-priority recorder processor: what does the world look like when processors start to run?"""
    priority = -10 ** 6

    def __init__(self, run):
        self.run = run

    def process(self, dt):
        self.run.sentinel_frame(dt)


# ----------------------------------------------------------------------------------------------------------
# strategies

EV_SHAPES = [0, 0, EV_ADD | EV_REMOVE, EV_ADD, EV_REMOVE, EV_ADD | EV_REMOVE | EV_RENAMED, EV_PROBE,
             EV_ADD | EV_REMOVE | EV_PROBE, EV_ADD | EV_RENAMED, EV_REMOVE | EV_PROBE,
             EV_FALSY, EV_FALSY | EV_ADD | EV_REMOVE | EV_PROBE,
             # value semantics: instances that are equal but distinct (hashable / unhashable)
             EV_EQ, EV_EQ | EV_ADD | EV_REMOVE | EV_PROBE, EV_UNHASH | EV_ADD | EV_REMOVE,
             # the mapping lives on the instances, the class declares nothing
             EV_INSTANCE | EV_ADD | EV_REMOVE, EV_INSTANCE | EV_REMOVE | EV_PROBE,
             # lean classes: only the declared callbacks exist as methods (hand-written handler classes)
             EV_LEAN | EV_ADD, EV_LEAN | EV_REMOVE, EV_LEAN | EV_PROBE, EV_LEAN | EV_ADD | EV_REMOVE | EV_RENAMED]


def decode_class(p):
    """One packed integer -> {"bases": [...], "ev": shape}.  (List elements are kept to very few draws because
    the Hypothesis shrinker deletes at most 5 consecutive choices at a time.)"""
    ev = EV_SHAPES[p % len(EV_SHAPES)]
    p //= len(EV_SHAPES)
    nb = (0, 1, 1, 2, 2, 3)[p % 6]
    p //= 6
    bases = []
    for _ in range(nb):
        bases.append(p % 8)
        p //= 8
    return {'bases': bases, 'ev': ev}


CLASS_SPACE = len(EV_SHAPES) * 6 * 8 ** 3


def classes_strategy(min_size=3, max_size=8):
    cls = packed(CLASS_SPACE).map(decode_class)
    free = st.lists(cls, min_size=min_size, max_size=max_size)
    # a diamond prefix (A; B(A); C(A); D(B, C)) followed by free classes: keeps multiple-inheritance frequent
    n = len(EV_SHAPES)
    diamond = st.tuples(packed(n ** 4), st.lists(cls, max_size=max_size - 4)).map(
        lambda t: [{'bases': [], 'ev': EV_SHAPES[t[0] % n]}, {'bases': [0], 'ev': EV_SHAPES[t[0] // n % n]},
                   {'bases': [0], 'ev': EV_SHAPES[t[0] // n ** 2 % n]},
                   {'bases': [1, 2], 'ev': EV_SHAPES[t[0] // n ** 3 % n]}] + t[1])
    return st.one_of(free, diamond)


def decode_op(weights):
    """Map (sel, packed operands) to a named op using a cumulative weight table."""
    table = []
    for name, w in weights.items():
        table.extend([name] * w)

    def dec(t):
        sel, p = t
        d = [(p >> (4 * i)) & 15 for i in range(6)]
        name = table[sel % len(table)]
        # last operand of create / add: 0 = plain, 1..7 = arm a one-shot reaction on the new handler component
        # (fires at its first on_add / on_remove), 8..14 = the same reactions, fired by on_remove only
        if name == 'create':
            n = (1, 1, 2, 0, 1, 2, 3, 1)[d[1] >> 1]
            return ['create', (d[0] % len(EXPLICIT_IDS)) + 1 if d[1] & 1 else 0, [x % 8 for x in d[2:2 + n]],
                    ARM_TABLE[d[5]] if REACTIONS else 0]
        if name == 'merge':
            return ['merge', d[0], [x % 8 for x in d[1:1 + (1, 1, 2, 3)[d[4] % 4]]]]
        if name == 'add':
            return ['add', d[0], d[1], d[2] % 4, ARM_TABLE[d[3]] if REACTIONS else 0]
        if name == 'remove':
            return ['remove', d[0], d[1]]
        if name in ('delete', 'delete_now', 'bad_delete'):
            return [name, d[0]]
        if name == 'arm':
            return ['arm', d[0], (0, 1, 2, 3, 3, 3, 3, 0)[d[1] % 8], d[2], d[3]]      # action 3: the callback raises
        if name == 'revive':
            return ['revive', d[0], d[1]]
        return [name]
    return dec, len(table)


def ops_strategy(weights, max_ops=40):
    dec, total = decode_op(weights)
    op = st.tuples(st.integers(0, total - 1), packed(16 ** 6)).map(dec)
    return chunked(op, max_ops)


def chunked(elem, max_len, chunk=6):
    """Lists of ``elem`` up to max_len built from small chunks: longer on average than st.lists (whose mean
    length is about 6) while still shrinking by deleting chunks and elements."""
    outer = max(1, max_len // chunk + 1)
    return st.lists(st.lists(elem, min_size=1, max_size=chunk), min_size=1, max_size=outer).map(
        lambda cs: [x for c in cs for x in c][:max_len])


def case_strategy(weights, max_ops=40):
    # idgen: which id_generator_factory the world is built with (0/1: the default count(1); 2: count(3);
    # 3: single letters, colliding with the explicit str id 'a')
    return st.fixed_dictionaries({'classes': classes_strategy(), 'ops': ops_strategy(weights, max_ops),
                                  'idgen': st.integers(0, 3), 'amp': amp_strategy(),
                                  'late': st.integers(0, 3).map(lambda k: (0, 0, 1, 2)[k])})


# ---- amplification: long and repetitive histories ---------------------------------------------------------
# A small share of the cases is blown up: one operation of the history is repeated in place many times (its first
# selector operand advancing, so that e.g. "delete" walks over the entities), or the whole history is repeated.
# Sizes straddle the round numbers at which implementations change strategy (64, 128, 256, 1024).  The shrinker
# lowers the size (and the rest of the case) as usual.
AMP_SIZES = {118: ('each', 70), 119: ('each', 70), 120: ('each', 70), 121: ('each', 70), 122: ('each', 150),
             123: ('op', 70), 124: ('op', 300), 125: ('op', 1100), 126: ('all', 70), 127: ('all', 420)}
AMP_MAX_STEPS = {70: 500, 420: 1300}
AMP_EACH_CAP = 1000


def decode_amp(t):
    a, b = t
    if a not in AMP_SIZES:
        return [0]
    kind, size = AMP_SIZES[a]
    return [kind, b, size]


def amp_strategy():
    return st.tuples(st.integers(0, 127), st.integers(0, 39)).map(decode_amp)


def packed(n):
    """Integers 0..n-1 for packed operands.  Hypothesis draws wide integer ranges with a strong bias towards small
    magnitudes (8- and 16-bit values), so the high digits of a packed operand would be 0 nearly always; the draw
    is therefore passed through a bijection of 0..n-1 (multiplication by a large prime modulo n; 0 stays 0, the
    shrink target) that spreads it over the whole range."""
    if n <= 16:
        return st.integers(0, n - 1)
    a = 2654435761
    while n % a == 0:
        a += 2
    return st.integers(0, n - 1).map(lambda p: (p * a) % n)


def size_amp(none=36, sizes=(64, 65, 66, 70, 129, 150)):
    """0 for most cases, else a population / repetition size (for modules with their own way of scaling up).
    Sizes sit on and just above powers of two: implementations switch strategy at such round numbers."""
    # (drawn through packed(): plain st.integers(0, n) concentrates on a few values per run - at some seeds hardly
    # any case of a run was scaled up)
    return packed(none + len(sizes)).map(lambda a: 0 if a < none else sizes[a - none])


def _repeat(o, times):
    out = []
    for t in range(times):
        o2 = list(o)
        if o2[0] != 'create' and len(o2) > 1 and isinstance(o2[1], int) and not isinstance(o2[1], bool):
            o2[1] = o2[1] + t           # the selector advances: "delete" walks over the entities
        out.append(o2)
    return out


def expand_ops(ops, amp, prefer=()):
    """-> (expanded op list, amplified?)  ``prefer``: op names worth repeating (chosen first when present).

    'op': one operation repeated in place; 'each': every operation with operands inside a window of six operations
    repeated in place (create x k, delete x k, process - many entities pending at one frame); 'all': the whole
    history repeated."""
    if not amp or not amp[0] or not ops:
        return list(ops), False
    kind, b, size = amp
    if kind == 'all':
        r = max(1, min(size, AMP_MAX_STEPS.get(size, 1400) // len(ops)))
        return [list(o) for _ in range(r) for o in ops], True
    if kind == 'each':
        # every operation that has operands inside a window of six consecutive operations is repeated in place
        lo = b % len(ops)
        out = []
        for j, o in enumerate(ops):
            out.extend(_repeat(o, size) if (len(o) > 1 and lo <= j < lo + 6) else [list(o)])
        return out, True
    idx = [i for i, o in enumerate(ops) if o[0] in prefer] or list(range(len(ops)))
    i = idx[b % len(idx)]
    out = []
    for j, o in enumerate(ops):
        out.extend(_repeat(o, size) if j == i else [list(o)])
    return out, True


def make_world(case):
    import itertools
    kind = case.get('idgen', 0)
    if kind == 2:
        return desper.World(id_generator_factory=lambda: itertools.count(3))
    if kind == 3:
        letters = 'abcdefghijklmnopqrstuvwxyzABCDEFGHIJKLMNOPQRSTUVWXYZ'
        # single letters first (colliding with the explicit id 'a'), then longer words: never exhausted
        return desper.World(id_generator_factory=lambda: (
            ''.join(t) for n in itertools.count(1) for t in itertools.product(letters, repeat=n)))
    return desper.World()


# ----------------------------------------------------------------------------------------------------------

class Abort(Exception):
    """An operation (not a query) failed for a reason that is another property's business: stop the case."""


class UserCallbackError(Exception):
    """raised by a lifecycle callback of the program under test (user code failing)"""


# user code usually fails with one of the built-in exception types (a failed lookup, a missing attribute): none of them
# means anything to the library, all of them come out of the operation unchanged
class _UserKeyError(UserCallbackError, KeyError):
    pass


class _UserAttributeError(UserCallbackError, AttributeError):
    pass


class _UserStopIteration(UserCallbackError, StopIteration):
    pass


USER_ERRORS = [UserCallbackError, _UserKeyError, _UserAttributeError, _UserStopIteration]


class Run:
    def __init__(self, case, checks):
        self.case = case
        self.checks = set(checks)
        self.log = []
        # late classes: the last one or two classes of the universe are DEFINED in the middle of the history (a
        # plugin, a lazily imported module): by then every earlier class has been used as a query type
        spec = list(case['classes'])
        nlate = min(case.get('late', 0), max(0, len(spec) - 2))
        self.late_specs = spec[len(spec) - nlate:] if nlate else []
        self.classes, self.eff_bases = build_dag(spec[:len(spec) - nlate] if nlate else spec)
        self.ev = [declared(c) for c in self.classes]
        self.world = make_world(case)
        self.sentinel = None
        self.attached = {}
        self.pending = []           # ids awaiting deletion, in request order, python-equality de-duplicated
        self.bad_pending = []       # ids that owned nothing when their deferred deletion was asked (C05 only)
        self.known_ids = []
        self.detached = []
        self.comps = []
        self.enabled = True
        self.queue = []             # groups of owed lifecycle callbacks postponed while disabled
        self.flags = collections.Counter()
        self.noops = 0
        self.excluded = collections.Counter()
        self.steps = 0
        self.touched = []
        self.inside_calls = 0
        self.used_explicit_int = False
        self.failed_frames = 0
        self.step_ix = -1
        self.frame_obs = None
        self.in_process = False
        self.cb_stack = []
        self.frame_reactions = 0
        self.nested_deferred = []   # ids deferred-deleted by a callback while the current frame applies deletions
        self.no_react = False       # general reactions are held back during clear / toggle / probe / process
        self.busy = []              # entities the operations in progress (outer and nested) work on
        self.nesting = 0
        self._post = []             # own-entity effects of reactions, applied to the model after the outer op
        self._owed = []
        self._disabled_at = None
        self._install_sentinel()

    # ---- helpers --------------------------------------------------------------------------------------
    def _install_sentinel(self):
        self.sentinel = Sentinel(self)
        self.world.add_processor(self.sentinel)

    def viol(self, clause, **details):
        details['step'] = self.step_ix
        ops = getattr(self, 'ops', self.case['ops'])
        details['op'] = ops[self.step_ix] if 0 <= self.step_ix < len(ops) else None
        if getattr(self, 'amplified', False):
            details['amplified'] = self.case.get('amp')
            details['expanded_steps'] = len(ops)
        raise PropertyViolation(clause, details, tags=dict(self.flags))

    def new_comp(self, cix):
        c = self.classes[cix % len(self.classes)]()
        c._log = self.log
        c.ix = len(self.comps)
        self.comps.append(c)
        return c

    def know(self, e):
        if not any(k == e and type(k) is type(e) for k in self.known_ids):
            self.known_ids.append(e)

    def target(self, ix):
        """an id ever used; operand values < 12 prefer ids that currently own components."""
        if not self.known_ids:
            return None
        owners = [k for k in self.known_ids if self.owns(k)]
        if owners and (ix < 12 or getattr(self, 'amplified', False)):
            t = owners[ix % len(owners)]
        else:
            t = self.known_ids[ix % len(self.known_ids)]
        self.touched.append(t)
        del self.touched[:-8]
        return t

    def query_type(self, e, cix):
        """a class of the universe; operand values < 12 prefer types that match a component of ``e``."""
        row = self.attached.get(e, {})
        cands = [T for T in self.classes if any(isinstance(c, T) for c in row.values())]
        if cands and cix < 12:
            return cands[cix % len(cands)]
        return self.classes[cix % len(self.classes)]

    def owns(self, e):
        return bool(self.attached.get(e))

    def is_pending(self, e):
        return any(p == e for p in self.pending)

    def is_marked(self, e):
        return self.is_pending(e) or any(b == e for b in self.bad_pending)

    def vanished_pending(self, e):
        return self.is_marked(e) and not self.owns(e)

    def maps(self, comp, event):
        return event in declared(comp)

    def virtual_base(self):
        if getattr(self, '_virtual', None) is None:
            import abc
            self._virtual = abc.ABCMeta('VirtualBase', (), {})
            self._virtual.register(self.classes[0])
            self._virtual.register(self.classes[-1])
        return self._virtual

    def line_budget(self):
        """lines one guarded call (process, enabling assignment) may execute inside desper: the fixed budget for
        ordinary histories plus an allowance proportional to the length of an amplified one (a release of two
        thousand postponed callbacks, each of them queried from inside, is long but finite)"""
        return PROCESS_BUDGET + 4000 * len(getattr(self, 'ops', ()))

    def call_op(self, fn, *a, **k):
        """Run a mutating operation of the implementation."""
        try:
            return fn(*a, **k)
        except PropertyViolation:
            raise
        except Exception as exc:
            self.on_op_exception(exc)

    def on_op_exception(self, exc):
        if isinstance(exc, Abort):
            raise exc           # a nested operation already gave up: pass it on unchanged (never re-wrap)
        if isinstance(exc, RecursionError):
            # a chain of callbacks each issuing a further operation, deeper than the interpreter allows
            self.flags['reaction_chain_hit_the_recursion_limit'] += 1
            raise Abort('recursion limit')
        if 'lifecycle' in self.checks and raised_in_repo(exc):
            self.viol('operation_raised', exception=repr(exc))
        self.flags['op_raised'] += 1
        self.flags['op_raised:%s:%s' % (self.ops[self.step_ix][0], type(exc).__name__)] += 1
        raise Abort(repr(exc)[:300])

    # ---- owed callbacks -------------------------------------------------------------------------------
    def owe(self, group):
        """group: list of (kind, comp, entity) owed by the operation that just ran (nested operations issued by
        callbacks add theirs to the same step)."""
        self._owed.extend(group)

    # ---- operations -----------------------------------------------------------------------------------
    def step(self, op):
        self.steps += 1
        self._owed = []
        name = op[0]
        if name in ('add', 'remove', 'delete', 'delete_now') and self.known_ids:
            t = self.target(op[1])
            if t is not None and self.is_pending(t):
                self.flags['op_on_pending_id'] += 1
                self.flags['op_on_pending_id:' + name] += 1
        mark = len(self.log)
        self._toggled_at = None
        self._disabled_at = None
        self._post = []
        self.busy = []
        was_enabled = self.enabled
        getattr(self, 'op_' + name)(*op[1:])
        self.followup_process = False
        self._revive = []
        for post in self._post:
            self.apply_post(post)
        self._post = []
        for e in self._revive:
            if not self.owns(e) and not self.is_marked(e) and self.enabled and not self.nesting:
                self.flags['revive_free_id'] += 1
                self._do_add(e, self.new_comp(len(self.comps)))
        if 'lifecycle' in self.checks and name != 'toggle':
            # a degraded op may have enabled dispatching first: that part of the log was judged by op_toggle
            start = self._toggled_at if self._toggled_at is not None else mark
            if self._disabled_at is not None and (was_enabled or self._toggled_at is not None):
                self.check_split(self.log[start:self._disabled_at], self.log[self._disabled_at:], name)
            else:
                self.check_segment(self.log[start:], name)
        if self.followup_process:
            # C05: an entity deferred-deleted itself from a callback while an operation was removing it altogether;
            # the very next frame shows whether a mark was left behind
            self.followup_process = False
            self._owed = []
            self.flags['followup_frame'] += 1
            self.op_process()

    def noop(self, why=None):
        self.noops += 1
        if why:
            self.excluded[why] += 1

    def op_create(self, id_sel, cixs, arm=0):
        types_seen = []
        comps = []
        for cix in cixs:
            cls = self.classes[cix % len(self.classes)]
            if cls in types_seen:
                self.excluded['same_type_twice_in_create'] += 1
                continue
            types_seen.append(cls)
            comps.append(self.new_comp(cix))
        if arm:
            self.arm_general(comps, arm)
        if id_sel == 0:
            eid = None
        else:
            eid = None
            for k in range(len(EXPLICIT_IDS)):
                cand = EXPLICIT_IDS[(id_sel - 1 + k) % len(EXPLICIT_IDS)]
                if not self.owns(cand) and not self.is_marked(cand):
                    eid = cand
                    break
                self.excluded['explicit_id_in_use'] += 1
        before = {k for k, v in self.attached.items() if v}
        self.busy.append(eid)
        if eid is None:
            got = self.call_op(self.world.create_entity, *comps)
            self.flags['auto_id'] += 1
            if self.used_explicit_int:
                self.flags['auto_after_explicit_int'] += 1
            if 'queries' in self.checks and comps and got in before:
                self.viol('auto_id_names_entity_that_owns_components', returned=got,
                          owners=list(before))
            if 'deletion' in self.checks and comps and self.is_pending(got) and got in before:
                # "after which the identifier is free again": not before
                self.viol('automatic_id_handed_out_while_its_entity_awaits_deletion', returned=repr(got))
            if self.is_marked(got) and comps:
                # an automatic id equal to one that awaits deletion: the statement does not say whether the
                # new components are to be deleted with it; stop judging this history (counted).
                self.flags['auto_id_hit_pending_id'] += 1
                raise Abort('auto id collides with pending id')
        else:
            got = self.call_op(self.world.create_entity, *comps, entity_id=eid)
            if 'queries' in self.checks and not (got == eid):
                self.viol('create_entity_returned_other_id', asked=eid, returned=got)
            if isinstance(eid, int) and not isinstance(eid, bool):
                self.used_explicit_int = True
            self.flags['explicit_id'] += 1
        self.know(got)
        if comps and getattr(self, 'cleared_once', False):
            self.flags['reuse_after_clear'] += 1
        if comps:
            row = self.attached.setdefault(got, {})
            for c in comps:
                row[type(c)] = c
        self.owe([('on_add', c, got) for c in comps if self.maps(c, 'on_add')])

    def op_merge(self, ent_ix, cixs):
        """create_entity(*components, entity_id=<an id that already owns components>), the new components being of
        exact types the entity does not hold yet.  Whether the entity then holds old and new components (merged) or
        only the new ones (replaced) is not fixed by the statement: whichever get_components tells, every other
        query has to tell the same story."""
        e = self.target(ent_ix)
        if ('queries' not in self.checks or e is None or not self.owns(e) or self.is_marked(e)
                or self.is_pending(e)):
            return self.noop()
        row = self.attached[e]
        comps = []
        for cix in cixs:
            cls = self.classes[cix % len(self.classes)]
            if cls in row or any(type(c) is cls for c in comps):
                self.excluded['merge_of_a_type_already_held'] += 1
                continue
            comps.append(self.new_comp(cix))
        if not comps:
            return self.noop()
        self.busy.append(e)
        try:
            got = self.call_op(self.world.create_entity, *comps, entity_id=e)
        finally:
            self.busy.pop()
        if not (got == e):
            self.viol('create_entity_returned_other_id', asked=e, returned=got)
        try:
            told = list(self.world.get_components(e))
        except Exception as exc:
            self.viol('query_raised', query='get_components', entity=repr(e), exception=repr(exc))
        ids = sorted(id(c) for c in told)
        if ids == sorted(id(c) for c in list(row.values()) + comps):
            self.flags['create_on_an_id_that_owns_components:merged'] += 1
        elif ids == sorted(id(c) for c in comps):
            self.flags['create_on_an_id_that_owns_components:replaced'] += 1
            self.detached.extend(row.values())
            row.clear()
        else:
            self.viol('create_on_an_owned_id_neither_merges_nor_replaces', entity=repr(e),
                      told=[repr(c) for c in told])
        for c in comps:
            row[type(c)] = c
        self.owe([('on_add', c, e) for c in comps if self.maps(c, 'on_add')])

    def op_add(self, ent_ix, cix, reuse, arm=0):
        e = self.target(ent_ix)
        if e is None:
            return self.noop()
        if self.vanished_pending(e):
            return self.noop('repopulate_vanished_pending_id')
        if reuse and self.detached and not arm:
            comp = self.detached.pop((reuse + cix) % len(self.detached))
            comp.__dict__.pop('_react', None)
            self.flags['reattach_instance'] += 1
        else:
            row = self.attached.get(e, {})
            if 'deletion' in self.checks and cix % 2 and len(row) == 1 and self.is_pending(e):
                # an entity awaiting deletion that holds ONE component gets that component replaced (same exact type):
                # the replacement must not bring the entity back to life
                cix = self.classes.index(next(iter(row)))
                self.flags['sole_component_of_a_pending_entity_replaced'] += 1
            comp = self.new_comp(cix)
        if arm:
            self.arm_general([comp], arm)
        self._do_add(e, comp)

    def _do_add(self, e, comp):
        row = self.attached.get(e, {})
        old = row.get(type(comp))
        self.busy.append(e)
        try:
            self.call_op(self.world.add_component, e, comp)
        finally:
            self.busy.pop()
        group = []
        if old is not None:
            self.flags['replace'] += 1
            if declares_anything(old):
                self.flags['handler_detached_by_replace'] += 1
            self.detached.append(old)
            if self.maps(old, 'on_remove'):
                group.append(('on_remove', old, e))
        self.attached.setdefault(e, {})[type(comp)] = comp
        if self.maps(comp, 'on_add'):
            group.append(('on_add', comp, e))
        self.owe(group)

    def op_revive(self, sel, cix):
        """give a component to an id that was used before and is free now (owns nothing, no deletion pending in the
        model): the entity exists again at once - a mark left behind by an earlier operation would hide it."""
        cands = [k for k in self.known_ids if not self.owns(k) and not self.is_marked(k)]
        if not cands:
            return self.noop()
        self.flags['revive_free_id'] += 1
        self._do_add(cands[sel % len(cands)], self.new_comp(cix))

    def op_remove(self, ent_ix, cix):
        e = self.target(ent_ix)
        if e is None:
            return self.noop()
        self._do_remove(e, self.query_type(e, cix))

    def _do_remove(self, e, T):
        row = self.attached.get(e, {})
        allowed = [c for c in row.values() if isinstance(c, T)]
        exact = row.get(T)
        self.busy.append(e)
        try:
            got = self.call_op(self.world.remove_component, e, T)
        finally:
            self.busy.pop()
        if exact is not None:
            allowed = [exact]
        if not allowed:
            if got is not None and ('queries' in self.checks):
                self.viol('remove_component_returned_unattached', returned=repr(got))
            if got is not None:
                raise Abort('remove returned something unexpected')
            self.flags['remove_nothing'] += 1
            return
        if not any(got is a for a in allowed):
            if 'queries' in self.checks:
                self.viol('remove_component_wrong_result', returned=repr(got), allowed=[repr(a) for a in allowed])
            raise Abort('remove returned something unexpected')
        self.flags['remove'] += 1
        del row[type(got)]
        if not row:
            self.attached.pop(e, None)
            if self.is_pending(e):
                self.flags['pending_row_vanished_by_removal'] += 1
        self.detached.append(got)
        self.owe([('on_remove', got, e)] if self.maps(got, 'on_remove') else [])

    def op_delete(self, ent_ix):
        e = self.target(ent_ix)
        if e is not None and not self.owns(e):
            owners = [k for k in self.known_ids if self.owns(k)]
            e = owners[ent_ix % len(owners)] if owners else None
            self.excluded['deferred_delete_of_absent_entity_retargeted'] += 1
        if e is None:
            return self.noop()
        self._delete(e)
        if 'deletion' in self.checks and ent_ix % 2:
            # odd operands also arm a reaction on one of the entity's on_remove listeners (see op_arm)
            cands = [c for c in self.attached.get(e, {}).values() if self.maps(c, 'on_remove')]
            if cands:
                comp = cands[(ent_ix // 2) % len(cands)]
                action, sel = (ent_ix // 2) % 3, ent_ix // 4
                comp.__dict__['_react'] = lambda c, kind, args: self.react(c, kind, args, action, sel, sel)
                self.flags['armed'] += 1

    def op_bad_delete(self, ent_ix):
        """deferred deletion of an id that owns nothing (C05 only): process must raise KeyError, once."""
        cands = [k for k in self.known_ids + NEVER_USED if not self.owns(k) and not self.is_marked(k)]
        if not cands:
            return self.noop()
        e = cands[ent_ix % len(cands)]
        self.call_op(self.world.delete_entity, e)
        if not any(b == e for b in self.bad_pending):
            self.bad_pending.append(e)
        self.flags['bad_delete'] += 1

    def _delete(self, e):
        was = self.is_pending(e)
        self.call_op(self.world.delete_entity, e)
        if was:
            self.flags['delete_twice'] += 1
        else:
            self.pending.append(e)
        self.flags['delete'] += 1
        if 'deletion' in self.checks and not self.nesting:
            self.check_just_deleted(e)

    def op_delete_now(self, ent_ix):
        e = self.target(ent_ix)
        if e is None:
            return self.noop()
        if not self.owns(e):
            try:
                self.world.delete_entity(e, immediate=True)
            except KeyError:
                self.flags['delete_now_absent_keyerror'] += 1
                return
            except PropertyViolation:
                raise
            except Exception as exc:
                self.on_op_exception(exc)
            if 'queries' in self.checks or 'deletion' in self.checks:
                self.viol('immediate_delete_of_absent_entity_did_not_raise_KeyError', entity=repr(e))
            return
        self._do_delete_now(e)

    def _do_delete_now(self, e):
        self.busy.append(e)
        try:
            self.call_op(self.world.delete_entity, e, immediate=True)
        finally:
            self.busy.pop()
        row = self.attached.pop(e)
        self.flags['delete_now'] += 1
        if any(declares_anything(c) for c in row.values()):
            self.flags['handler_detached_by_delete_now'] += 1
        if self.is_pending(e):
            self.flags['pending_row_vanished_by_delete_now'] += 1
        self.detached.extend(row.values())
        self.owe([('on_remove', c, e) for c in row.values() if self.maps(c, 'on_remove')])

    def op_arm(self, comp_sel, action, ent_sel, cls_sel):
        """Arm a one-shot reaction on an attached handler component: when its on_remove runs INSIDE process()
        (deferred deletion being applied) it performs another World operation on another entity."""
        cands = [c for e, row in self.attached.items() for c in row.values()
                 if self.maps(c, 'on_remove') and self.is_pending(e) and '_react' not in c.__dict__]
        if not cands or comp_sel >= 12:
            cands = [c for row in self.attached.values() for c in row.values() if self.maps(c, 'on_remove')]
        if action == 3:
            # a callback that raises is most telling where the sweep still has work to do for the same entity: prefer a
            # component that is not the last one of an entity awaiting deletion
            better = [c for e, row in self.attached.items() if self.is_pending(e) and len(row) >= 2
                      for c in list(row.values())[:-1] if self.maps(c, 'on_remove') and '_react' not in c.__dict__]
            if better:
                cands = better
        if not cands:
            return self.noop()
        comp = cands[comp_sel % len(cands)]
        comp.__dict__['_react'] = lambda c, kind, args: self.react(c, kind, args, action, ent_sel, cls_sel)
        self.flags['armed'] += 1

    def react(self, comp, kind, args, action, ent_sel, cls_sel):
        if kind != 'on_remove' or not self.in_process or self.no_react:
            return                      # stays armed
        del comp.__dict__['_react']
        me = args[0] if args else None
        w = self.world
        if action == 3:
            # user code failing: the on_remove of a component of an entity being deleted by this frame raises
            self.flags['reaction:raise'] += 1
            self.user_error = USER_ERRORS[self.step_ix % len(USER_ERRORS)]('on_remove raised inside process()')
            raise self.user_error
        # entities whose own removal is in progress further up the call stack are only ever deferred-deleted
        # again (action 0); stripping or immediately deleting an entity in the middle of its own deletion is
        # not a history the property speaks about ("whatever happened to that entity in between")
        busy = self.cb_stack + [me]
        cands = [k for k in self.known_ids if not (k == me) and w.get_components(k)
                 and (action == 0 or not any(k == b for b in busy))]
        if not cands:
            self.excluded['reaction_without_target'] += 1
            return
        y = cands[ent_sel % len(cands)]
        self.flags['reaction_in_process'] += 1
        self.frame_reactions += 1
        self.cb_stack.append(me)
        try:
            self._react(action, y, cls_sel)
        finally:
            self.cb_stack.pop()

    def _react(self, action, y, cls_sel):
        w = self.world
        if action == 0:
            w.delete_entity(y)
            if not self.is_pending(y) and not any(n == y for n in self.nested_deferred):
                self.nested_deferred.append(y)
            self.flags['reaction:delete'] += 1
        elif action == 1:
            w.delete_entity(y, immediate=True)
            row = self.attached.pop(y, None) or {}
            self.detached.extend(row.values())
            self.nested_deferred = [n for n in self.nested_deferred if not (n == y)]
            self.flags['reaction:delete_now'] += 1
            if self.is_pending(y):
                self.flags['reaction:delete_now_of_pending'] += 1
        else:
            comps = w.get_components(y)
            c = comps[cls_sel % len(comps)]
            got = w.remove_component(y, type(c))
            row = self.attached.get(y, {})
            if got is not None and row.get(type(got)) is got:
                del row[type(got)]
                if not row:
                    self.attached.pop(y, None)
                    self.nested_deferred = [n for n in self.nested_deferred if not (n == y)]
                self.detached.append(got)
            self.flags['reaction:remove'] += 1

    # ---- re-entrant operations issued by lifecycle callbacks -------------------------------------------------
    ACTIONS = ['delete_own', 'remove_self', 'delete_other', 'delete_now_other', 'remove_other', 'add_other',
               'disable']

    def arm_general(self, comps, arm):
        """arm the first handler component of ``comps`` with a one-shot reaction: the first on_add / on_remove it
        receives (outside process / clear / toggle, while dispatching is enabled) issues a World operation."""
        if arm == 15:
            for c in comps:
                if self.maps(c, 'on_add') or self.maps(c, 'on_remove'):
                    c.__dict__['_react'] = lambda comp, kind, args: self.react_batch(comp, kind, args, len(self.comps))
                    self.flags['armed_batch'] += 1
                    return
            return
        for c in comps:
            only_remove = arm > len(self.ACTIONS)
            if (self.maps(c, 'on_add') and not only_remove) or self.maps(c, 'on_remove'):
                action, sel = (arm - 1) % len(self.ACTIONS), arm
                c.__dict__['_react'] = lambda comp, kind, args: (
                    None if (only_remove and kind != 'on_remove')
                    else self.react_general(comp, kind, args, action, sel))
                self.flags['armed_general'] += 1
                return

    def react_batch(self, comp, kind, args, sel):
        """fires when the armed component's postponed on_add / on_remove is delivered DURING A RELEASE: the callback
        runs its own batch - disable; attach a new component to another entity; enable.  The callbacks its
        operation owes come after everything that was already pending (operation order), and the nested enabling
        delivers all of it."""
        if kind not in ('on_add', 'on_remove') or not getattr(self, 'releasing', False) or self.batch_done:
            return                      # stays armed
        del comp.__dict__['_react']
        w = self.world
        cands = [k for k in self.known_ids if self.owns(k) and not self.vanished_pending(k) and w.get_components(k)]
        if not cands:
            self.excluded['reaction_without_target'] += 1
            return
        self.batch_done = True
        y = cands[sel % len(cands)]
        self.flags['reaction_batch_during_release'] += 1
        saved, self._owed = self._owed, []
        w.dispatch_enabled = False
        self.nesting += 1
        try:
            self._do_add(y, self.new_comp(sel))
        finally:
            self.nesting -= 1
        group, self._owed = self._owed, saved
        if group:
            self.queue.append(group)
            self.flags['batch_postponed_callbacks_behind_older_ones'] += 1
        w.dispatch_enabled = True

    def react_general(self, comp, kind, args, action, sel):
        if kind not in ('on_add', 'on_remove') or self.no_react or self.in_process or not self.enabled:
            return                      # stays armed
        del comp.__dict__['_react']
        e = args[0] if args else None
        w = self.world
        name = self.ACTIONS[action]
        if name == 'remove_self' and kind != 'on_add':
            name = 'delete_own'
        self.flags['reaction_general'] += 1
        self.flags['reaction_g:%s:%s' % (name, kind)] += 1
        if name == 'delete_own':
            # legal only while the entity still has a row (otherwise it is a delete of an unknown entity)
            if w.get_components(e):
                w.delete_entity(e)
                self._post.append(('mark', e))
            return
        if name == 'remove_self':
            got = w.remove_component(e, type(comp))
            self._post.append(('unattach', e, comp, got))
            return
        if name == 'disable':
            w.dispatch_enabled = False
            self.enabled = False
            self._disabled_at = len(self.log)
            return
        busy = self.busy + [e]
        cands = [k for k in self.known_ids if self.owns(k) and not any(k == b for b in busy)
                 and not self.vanished_pending(k) and w.get_components(k)]
        if not cands:
            self.excluded['reaction_without_target'] += 1
            return
        y = cands[sel % len(cands)]
        self.nesting += 1
        try:
            if name == 'delete_other':
                self._delete(y)
            elif name == 'delete_now_other':
                self._do_delete_now(y)
            elif name == 'remove_other':
                types = list(self.attached[y])
                self._do_remove(y, types[sel % len(types)])
            else:
                self._do_add(y, self.new_comp(sel))
        finally:
            self.nesting -= 1

    def apply_post(self, post):
        if post[0] == 'mark':
            e = post[1]
            if self.owns(e) and not self.is_pending(e):
                self.pending.append(e)
                self.flags['own_entity_marked_from_callback'] += 1
            elif not self.owns(e):
                # the operation removed the entity altogether: the mark must have gone with it - the id is
                # given a component again right away (a mark left behind would hide the new entity; the next
                # process() shows the rest)
                self.flags['own_entity_marked_then_gone'] += 1
                if 'queries' in self.checks:
                    self._revive.append(e)          # done once every post of this step has been applied
                elif 'deletion' in self.checks and not self.nesting:
                    self.followup_process = True
            return
        _k, e, comp, got = post
        row = self.attached.get(e, {})
        if row.get(type(comp)) is not comp:
            return
        if got is not comp and 'queries' in self.checks:
            self.viol('remove_component_wrong_result', returned=repr(got), allowed=[repr(comp)], nested=True)
        del row[type(comp)]
        if not row:
            self.attached.pop(e, None)
        self.detached.append(comp)
        self.flags['component_removed_itself_in_on_add'] += 1
        if self.maps(comp, 'on_remove'):
            self._owed.append(('on_remove', comp, e))

    def check_split(self, before, after, opname):
        """a callback disabled dispatching in the middle of the operation: what was delivered until then is part of
        what the operation owes, nothing may run afterwards, the rest is postponed."""
        before = [r for r in before if r[0] in ('on_add', 'on_remove')]
        after = [r for r in after if r[0] in ('on_add', 'on_remove')]
        if after:
            self.viol('lifecycle_callback_while_dispatching_disabled', got=self.fmt(after), disabled_by='callback')
        left = list(self._owed)
        for (k, r, a) in before:
            hit = [g for g in left if g[0] == k and g[1] is r]
            if not hit:
                self.viol('lifecycle_callbacks_differ_from_owed', where=opname, got=self.fmt(before),
                          owed=[(k2, repr(c), repr(e)) for (k2, c, e) in self._owed])
            left.pop(next(i for i, g in enumerate(left) if g is hit[0]))
            if len(a) != 2 or not (a[0] == hit[0][2]) or a[1] is not self.world:
                self.viol('lifecycle_callback_arguments_wrong', where=opname, kind=k, receiver=repr(r), args=repr(a))
        if left:
            self.queue.append(left)
            self.flags['postponed'] += 1
        self.flags['disabled_from_inside_a_callback'] += 1

    def op_process(self):
        self.frame_obs = None
        self.nested_deferred = []
        self.frame_reactions = 0
        pend = [p for p in self.pending]
        n_pending_rows = sum(1 for p in pend if self.owns(p))
        legit_failure = bool(self.bad_pending)
        try:
            self.in_process = True
            try:
                _, used = with_budget(self.line_budget(), self.world.process, 1)
            finally:
                self.in_process = False
        except StepBudgetExceeded as exc:
            if 'deletion' in self.checks:
                self.viol('process_does_not_terminate', error=str(exc))
            raise Abort('process budget')
        except PropertyViolation:
            raise
        except Abort:
            raise
        except RecursionError:
            self.flags['reaction_chain_hit_the_recursion_limit'] += 1
            raise Abort('recursion limit')
        except Exception as exc:
            if exc is getattr(self, 'user_error', None):
                return self.after_user_failure()
            if 'deletion' in self.checks:
                if not legit_failure:
                    self.viol('process_raised_although_every_deleted_entity_existed', exception=repr(exc),
                              pending=[repr(p) for p in pend])
                if not isinstance(exc, KeyError):
                    self.viol('process_raised_other_than_KeyError', exception=repr(exc))
                self.flags['failed_frame'] += 1
                if self.frame_reactions:
                    # which deletions (incl. those issued by callbacks) were applied before the failure is not
                    # modelled: stop judging this history (counted)
                    self.flags['failed_frame_with_reactions'] += 1
                    raise Abort('failed frame with reactions')
                self.recover_after_failed_frame(len(self.bad_pending))
                return
            self.on_op_exception(exc)
        else:
            if legit_failure and 'deletion' in self.checks:
                # pinned by tests/test_logic.py::test_delete_entity: KeyError at the next frame.  A process()
                # that copes silently would also satisfy C05, so nothing is demanded here.
                self.flags['bad_delete_tolerated'] += 1
        self.bad_pending = []
        group = []
        for p in pend:
            row = self.attached.pop(p, None)
            if row:
                self.flags['deferred_delete_processed'] += 1
                self.detached.extend(row.values())
                group.extend(('on_remove', c, p) for c in row.values() if self.maps(c, 'on_remove'))
        self.pending = []
        self.flags['process'] += 1
        self.owe(group)
        # deletions requested by callbacks while this frame was applying deletions: "the next process()" may be
        # this one or the following one - follow the implementation, then hold it to its choice
        for y in self.nested_deferred:
            if self.q(self.world.get_components, y):
                self.pending.append(y)
                self.flags['nested_delete_left_for_next_frame'] += 1
                if 'deletion' in self.checks and (self.q(self.world.entity_exists, y)
                                                  or any(x == y for x in self.q(lambda: self.world.entities))):
                    self.viol('entity_deleted_from_a_callback_during_process_exists_afterwards', entity=repr(y))
            else:
                row = self.attached.pop(y, None) or {}
                self.detached.extend(row.values())
                self.flags['nested_delete_applied_same_frame'] += 1
        self.nested_deferred = []
        if 'deletion' in self.checks:
            self.check_frame(pend, n_pending_rows, group)

    def after_user_failure(self):
        """process() failed because a callback of the program raised.  Which deletions were applied is not
        modelled; what C05 still promises is that the world does not keep failing: the following frames complete
        and no query raises (a processor that queries would otherwise fail on every later frame)."""
        self.flags['frame_failed_because_a_callback_raised'] += 1
        if self.bad_pending:
            raise Abort('callback raised in a frame that also had an unknown id pending')
        if 'deletion' in self.checks:
            w = self.world
            for k in range(3):
                try:
                    self.in_process = True
                    try:
                        with_budget(self.line_budget(), w.process, 1)
                    finally:
                        self.in_process = False
                except StepBudgetExceeded as exc:
                    self.viol('process_does_not_terminate', error=str(exc), after='a callback raised in process()')
                except PropertyViolation:
                    raise
                except UserCallbackError:
                    # another armed callback raised (amplified histories arm dozens): user code failing again,
                    # not the world
                    self.flags['another_callback_raised_in_the_tail'] += 1
                except Exception as exc:
                    self.viol('world_keeps_failing_after_a_failed_process', frames_later=k + 1, exception=repr(exc))
            # ... and whoever still exists can be deleted like any other entity ("process() completes for every
            # history in which each deleted entity existed when delete_entity was called")
            victims = [e for e in self.known_ids if self.q(w.get_components, e)]
            for e in victims:
                try:
                    w.delete_entity(e)
                except PropertyViolation:
                    raise
                except Exception as exc:
                    self.viol('delete_entity_raised_for_an_existing_entity', entity=repr(e), exception=repr(exc))
            if victims:
                self.no_react = True
                try:
                    self.in_process = True
                    try:
                        with_budget(self.line_budget(), w.process, 1)
                    finally:
                        self.in_process = False
                        self.no_react = False
                except PropertyViolation:
                    raise
                except StepBudgetExceeded as exc:
                    self.viol('process_does_not_terminate', error=str(exc), after='a callback raised in process()')
                except Exception as exc:
                    self.viol('process_raised_although_every_deleted_entity_existed', exception=repr(exc),
                              after='a frame that failed because a callback raised', deleted=[repr(e) for e in victims])
                self.flags['everything_deleted_after_a_failed_frame'] += 1
            ids = list(self.known_ids) + NEVER_USED
            try:
                for T in self.classes:
                    list(w.get(T))
                    for e in ids:
                        w.has_component(e, T)
                        w.get_component(e, T)
                for e in ids:
                    w.get_components(e)
                    w.entity_exists(e)
                list(w.entities)
            except PropertyViolation:
                raise
            except Exception as exc:
                self.viol('world_keeps_failing_after_a_failed_process', query=True, exception=repr(exc))
        raise Abort('a callback raised inside process()')

    def op_clear(self):
        if 'lifecycle' in self.checks and not self.enabled:
            # clear() documents that pending events are dropped, C02 that postponed callbacks are not lost:
            # not arbitrated - dispatching is re-enabled (and the release checked) before clearing
            self.excluded['clear_while_disabled_enabled_first'] += 1
            self.op_toggle()
        self.no_react = True
        try:
            self.call_op(self.world.clear)
        finally:
            self.no_react = False
        group = []
        for e, row in self.attached.items():
            group.extend(('on_remove', c, e) for c in row.values() if self.maps(c, 'on_remove'))
            self.detached.extend(row.values())
            if any(declares_anything(c) for c in row.values()):
                self.flags['handler_detached_by_clear'] += 1
        self.attached = {}
        self.pending = []
        self.bad_pending = []
        self.enabled = True
        self.queue = []
        self.flags['clear'] += 1
        self.used_explicit_int = False
        self.owe(group)
        mark = len(self.log)
        self._install_sentinel()
        del self.log[mark:]
        self.cleared_once = True

    def op_toggle(self):
        mark = len(self.log)
        if self.enabled:
            self.call_op(setattr, self.world, 'dispatch_enabled', False)
            self.enabled = False
            self.flags['disable'] += 1
            if 'lifecycle' in self.checks and self.log[mark:]:
                self.viol('callback_while_disabling', segment=self.fmt(self.log[mark:]))
            return
        try:
            self.no_react = True
            self.releasing, self.batch_done = True, False
            try:
                with_budget(self.line_budget(), setattr, self.world, 'dispatch_enabled', True)
            finally:
                self.no_react = False
                self.releasing = False
        except StepBudgetExceeded:
            raise Abort('enable budget (C04)')
        except PropertyViolation:
            raise
        except Abort:
            raise
        except RecursionError:
            self.flags['reaction_chain_hit_the_recursion_limit'] += 1
            raise Abort('recursion limit')
        except Exception as exc:
            if 'lifecycle' in self.checks:
                self.viol('enabling_raised', exception=repr(exc), queued=self.fmt_groups(self.queue))
            self.on_op_exception(exc)
        self.enabled = True
        self.flags['enable'] += 1
        if 'lifecycle' in self.checks:
            self.check_release(self.log[mark:])
        self.queue = []
        self._toggled_at = len(self.log)

    def op_probe(self):
        if not self.enabled:
            # deferred delivery of ordinary events is C04's subject: degrade to the enabling assignment
            self.excluded['probe_while_disabled_enabled_instead'] += 1
            return self.op_toggle()
        token = object()
        mark = len(self.log)
        self.call_op(self.world.dispatch, 'probe', token)
        if 'lifecycle' in self.checks:
            seg = self.log[mark:]
            expect = [c for row in self.attached.values() for c in row.values() if self.maps(c, 'probe')]
            got = [r for (k, r, a) in seg if k == 'probe']
            if any(k != 'probe' for (k, r, a) in seg):
                self.viol('probe_triggered_other_callbacks', segment=self.fmt(seg))
            if sorted(map(id, got)) != sorted(map(id, expect)):
                self.viol('probe_not_delivered_once_to_exactly_the_attached_listeners',
                          got=[repr(g) for g in got], expected=[repr(x) for x in expect])
            for (k, r, a) in seg:
                if len(a) != 1 or a[0] is not token:
                    self.viol('probe_arguments_changed', args=repr(a))
            self.flags['probe'] += 1
        del self.log[mark:]

    # ---- C02 oracle -----------------------------------------------------------------------------------
    def fmt(self, seg):
        return [[k, repr(r), repr(a[0]) if a else None] for (k, r, a) in seg]

    def fmt_groups(self, groups):
        return [[(k, repr(c), repr(e)) for (k, c, e) in g] for g in groups]

    def match_group(self, seg, group, where):
        """seg (log records) must be a permutation of group (owed callbacks)."""
        want = collections.Counter((k, id(c)) for (k, c, e) in group)
        got = collections.Counter((k, id(r)) for (k, r, a) in seg)
        if want != got:
            self.flags['lifecycle_mismatch'] += 1
            self.viol('lifecycle_callbacks_differ_from_owed', where=where, got=self.fmt(seg),
                      owed=[(k, repr(c), repr(e)) for (k, c, e) in group])
        ent = {(k, id(c)): e for (k, c, e) in group}
        for (k, r, a) in seg:
            e = ent[(k, id(r))]
            if len(a) != 2 or not (a[0] == e) or a[1] is not self.world:
                self.viol('lifecycle_callback_arguments_wrong', where=where, kind=k, receiver=repr(r),
                          args=repr(a), expected_entity=repr(e))

    def check_segment(self, seg, opname):
        seg = [r for r in seg if r[0] in ('on_add', 'on_remove')]
        group = self._owed
        if self.enabled:
            self.match_group(seg, group, opname)
        else:
            if seg:
                self.viol('lifecycle_callback_while_dispatching_disabled', got=self.fmt(seg))
            if group:
                self.queue.append(group)
                self.flags['postponed'] += 1

    def check_release(self, seg):
        seg = [r for r in seg if r[0] in ('on_add', 'on_remove')]
        pos = 0
        total = sum(len(g) for g in self.queue)
        if len(seg) != total:
            self.viol('postponed_callbacks_lost_or_duplicated', got=self.fmt(seg),
                      owed=self.fmt_groups(self.queue), cleared_before=bool(getattr(self, 'cleared_once', False)))
        for g in self.queue:
            self.match_group(seg[pos:pos + len(g)], g, 'release (operation order)')
            pos += len(g)
        if self.queue:
            self.flags['released_postponed'] += 1
            if getattr(self, 'cleared_once', False):
                self.flags['released_postponed_after_clear'] += 1

    def check_handlers(self):
        att = {id(c) for row in self.attached.values() for c in row.values()}
        for c in self.comps:
            if not declares_anything(c):
                continue
            try:
                h = self.world.is_handler(c)
            except PropertyViolation:
                raise
            except Exception as exc:
                self.viol('is_handler_raised', exception=repr(exc))
            if h != (id(c) in att):
                self.viol('registered_as_listener_exactly_while_attached', component=repr(c),
                          is_handler=h, attached=(id(c) in att))

    # ---- C01 oracle -----------------------------------------------------------------------------------
    def q(self, fn, *a):
        try:
            return fn(*a)
        except (PropertyViolation, StepBudgetExceeded):
            raise
        except Exception as exc:
            self.viol('query_raised', query=getattr(fn, '__name__', repr(fn)), args=repr(a), exception=repr(exc))

    def check_queries(self, full=True):
        w = self.world
        sentinel = self
        if full:
            ids = list(self.known_ids) + NEVER_USED
        else:
            ids = list(self.known_ids[-2:]) + list(self.touched[-2:])
        for T in (self.classes if full else ()):
            got = self.q(w.get, T)
            want = [(e, c) for e, row in self.attached.items() for c in row.values() if isinstance(c, T)]
            gk = collections.Counter(id(c) for (_e, c) in got)
            wk = collections.Counter(id(c) for (_e, c) in want)
            if gk != wk:
                self.viol('get_T_lists_each_attached_match_exactly_once', type=T.__name__,
                          got=[(repr(e), repr(c)) for e, c in got], expected=[(repr(e), repr(c)) for e, c in want])
            owner = {id(c): e for (e, c) in want}
            for (e, c) in got:
                if not (owner[id(c)] == e):
                    self.viol('get_T_reports_wrong_owner', type=T.__name__, component=repr(c), got=repr(e),
                              expected=repr(owner[id(c)]))
        for e in ids:
            row = self.attached.get(e, {})
            gc_ = self.q(w.get_components, e)
            if collections.Counter(map(id, gc_)) != collections.Counter(map(id, row.values())):
                self.viol('get_components_differs', entity=repr(e), got=[repr(c) for c in gc_],
                          expected=[repr(c) for c in row.values()])
            for T in self.classes:
                matches = [c for c in row.values() if isinstance(c, T)]
                hc = self.q(w.has_component, e, T)
                if hc is not bool(matches) and hc != bool(matches):
                    self.viol('has_component_differs', entity=repr(e), type=T.__name__, got=hc,
                              expected=bool(matches))
                g = self.q(w.get_component, e, T, sentinel)
                if T in row:
                    ok = g is row[T]
                elif matches:
                    ok = any(g is m for m in matches)
                else:
                    ok = g is sentinel
                if not ok:
                    self.viol('get_component_differs', entity=repr(e), type=T.__name__, got=repr(g),
                              exact=repr(row.get(T)), matches=[repr(m) for m in matches])
            ex = self.q(w.entity_exists, e)
            want_ex = bool(row) and not self.is_pending(e)
            if bool(ex) != want_ex:
                self.viol('entity_exists_differs', entity=repr(e), got=ex, expected=want_ex)
        if not full:
            return
        # a query type related to some component classes only VIRTUALLY (an ABC they are registered with): whether
        # such a relation counts is not fixed here - but the queries of one world must agree about it
        V = self.virtual_base()
        listed = collections.Counter(id(c) for (_e, c) in self.q(w.get, V)) if self.steps % 2 == 0 else None
        for e in (ids[-10:] if listed is not None else ()):
            has = bool(self.q(w.has_component, e, V))
            g = self.q(w.get_component, e, V, sentinel)
            row = self.attached.get(e, {})
            in_get = any(id(c) in listed for c in row.values())
            if has != (g is not sentinel) or has != in_get:
                self.viol('queries_disagree_about_a_virtual_base_type', entity=repr(e), has_component=has,
                          get_component_found=(g is not sentinel), listed_by_get=in_get)
        ents = self.q(lambda: w.entities)
        want_ents = [e for e, row in self.attached.items() if row and not self.is_pending(e)]
        # (ids are compared the way the World keys them: by hash and ==, so that 1, 1.0 and True are one id)
        if len(ents) != len(want_ents) or collections.Counter(ents) != collections.Counter(want_ents):
            self.viol('entities_differs', got=[repr(e) for e in ents], expected=[repr(e) for e in want_ents])

    # ---- C05 oracle -----------------------------------------------------------------------------------
    def check_just_deleted(self, e):
        w = self.world
        row = self.attached.get(e, {})
        if self.q(w.entity_exists, e):
            self.viol('entity_exists_right_after_delete_entity', entity=repr(e))
        if any(x == e for x in self.q(lambda: w.entities)):
            self.viol('entity_listed_right_after_delete_entity', entity=repr(e))
        gc_ = self.q(w.get_components, e)
        if collections.Counter(map(id, gc_)) != collections.Counter(map(id, row.values())):
            self.viol('components_not_queryable_after_delete_entity', entity=repr(e),
                      got=[repr(c) for c in gc_], expected=[repr(c) for c in row.values()])
        for T in self.classes:
            got = collections.Counter(id(c) for (_e, c) in self.q(w.get, T))
            want = collections.Counter(id(c) for r in self.attached.values() for c in r.values()
                                       if isinstance(c, T))
            if got != want:
                self.viol('get_T_changed_by_delete_entity', type=T.__name__)

    def sentinel_frame(self, dt):
        """Called by the sentinel processor, i.e. at the moment the first processor of the frame runs."""
        obs = {'log_len': len(self.log), 'left': {}}
        for p in list(self.pending):
            try:
                obs['left'][repr(p)] = [repr(c) for c in self.world.get_components(p)]
            except PropertyViolation:
                raise
            except Exception as exc:        # judged by check_frame
                obs['left'][repr(p)] = ['<raised %r>' % (exc,)]
        self.frame_obs = obs

    def check_frame(self, pend, n_rows, group):
        obs = self.frame_obs
        if obs is None:
            self.viol('lowest_priority_processor_did_not_run_in_process')
        left = {k: v for k, v in obs['left'].items() if v}
        if left:
            self.viol('deleted_entity_still_has_components_when_processors_run', left=left)
        if self.enabled and not self.frame_reactions:
            # on_remove of every handler component of the deleted entities must already be in the log
            seg = [r for r in self.log[:obs['log_len']] if r[0] == 'on_remove']
            have = collections.Counter(id(r) for (k, r, a) in seg[-len(group):]) if group else collections.Counter()
            want = collections.Counter(id(c) for (k, c, e) in group)
            if have != want:
                self.viol('on_remove_of_deleted_entities_not_delivered_before_processors',
                          owed=[(repr(c), repr(e)) for (k, c, e) in group], log_tail=self.fmt(seg[-6:]))
        w = self.world
        for p in pend:
            if self.q(w.get_components, p):
                self.viol('components_survive_deferred_deletion', entity=repr(p))
            if self.q(w.entity_exists, p):
                self.viol('entity_exists_after_deferred_deletion', entity=repr(p))
        if pend:
            # the identifier is free again: giving it a component makes it exist
            p = pend[len(self.comps) % len(pend)]
            c = self.new_comp(len(self.comps))
            self.call_op(w.create_entity, c, entity_id=p)
            self.attached[p] = {type(c): c}
            if not self.q(w.entity_exists, p) or [id(x) for x in self.q(w.get_components, p)] != [id(c)]:
                self.viol('identifier_not_free_after_deferred_deletion', entity=repr(p))
            self.flags['id_reused_after_deletion'] += 1

    def recover_after_failed_frame(self, nbad):
        """A frame failed legitimately (deferred deletion of ``nbad`` ids that owned nothing; the failed frame
        accounts for one of them).  Further frames without new operations: each may fail for one more of those
        ids, so one of the next ``nbad`` frames must succeed and leave every pending deletion applied."""
        pend = list(self.pending)
        ok = False
        for _ in range(max(1, nbad)):
            self.frame_obs = None
            # (armed callbacks do not react in these frames: which deletions a failed frame applied is not
            # modelled, so operations issued from callbacks could hit an entity in the middle of its own removal)
            self.in_process, self.no_react = True, True
            try:
                try:
                    with_budget(self.line_budget(), self.world.process, 1)
                finally:
                    self.in_process, self.no_react = False, False
                ok = True
                break
            except StepBudgetExceeded as exc:
                self.viol('process_does_not_terminate', error=str(exc))
            except PropertyViolation:
                raise
            except Exception:
                self.flags['failed_frame_again'] += 1
        if not ok:
            self.viol('failed_process_leaves_world_failing_on_every_later_frame', pending=[repr(p) for p in pend])
        self.bad_pending = []
        for p in pend:
            row = self.attached.pop(p, None)
            if row:
                self.detached.extend(row.values())
        self.pending = []
        self.flags['recovered_after_failed_frame'] += 1
        w = self.world
        for p in pend:
            if self.q(w.get_components, p) or self.q(w.entity_exists, p):
                self.viol('pending_deletion_not_applied_after_recovery', entity=repr(p))
        del self.log[:]   # lifecycle bookkeeping is not followed across a failed frame

    def check_id_free(self):
        """after process every deleted id is free again: creating it makes it exist."""

    # ---- driver ---------------------------------------------------------------------------------------
    def after_step(self, full=True):
        if 'queries' in self.checks:
            self.check_queries(full)
        if 'lifecycle' in self.checks and full:
            self.check_handlers()

    def observe_inside(self, comp, kind, args):
        """called from inside every lifecycle callback (C01 only): whatever the operation in progress, an entity
        that owns no component right now does not exist right now, and entities / entity_exists agree."""
        if kind not in ('on_add', 'on_remove') or not args:
            return
        e = args[0]
        w = self.world
        self.inside_calls += 1
        try:
            owns = bool(w.get_components(e))
            exists = w.entity_exists(e)
            # (listing every entity from inside every callback is quadratic: sampled in long histories)
            listed = (any(x == e for x in w.entities) if (len(self.known_ids) < 100 or self.inside_calls % 16 == 0)
                      else bool(exists))
        except (PropertyViolation, StepBudgetExceeded):
            raise
        except RecursionError:
            # (a chain of callbacks each issuing a further operation, as deep as the interpreter allows: the query asked
            # from down there cannot run - that ends the case like the same error in an operation does)
            self.flags['reaction_chain_hit_the_recursion_limit'] += 1
            raise Abort('recursion limit')
        except Exception as exc:
            self.viol('query_raised', where='inside ' + kind, exception=repr(exc))
        self.flags['queries_from_inside_a_callback'] += 1
        if exists and not owns:
            self.viol('entity_exists_differs', where='inside %s of %r' % (kind, comp), entity=repr(e), got=True,
                      expected=False, note='the entity owns no component at this moment')
        if bool(exists) != listed:
            self.viol('entities_differs', where='inside %s of %r' % (kind, comp), entity=repr(e),
                      entity_exists=exists, listed=listed)

    def run(self):
        from vlib.classes import RecBase
        if 'queries' in self.checks:
            RecBase._observer = self.observe_inside
        self.ops, self.amplified = expand_ops(self.case['ops'], self.case.get('amp'),
                                              prefer=('create', 'add', 'delete', 'delete_now', 'remove'))
        n = len(self.ops)
        # long histories: the full comparison of every query for every id is made at ~12 points and at the end,
        # the entities touched by the last operations are compared after every step
        self.stride = (max(1, n // 12) if n <= 600 else n // 4) if n > 120 else 1
        if self.amplified:
            self.flags['amplified_history'] += 1
            self.flags['amplified_%s' % self.case['amp'][0]] += 1
        self.neighbour = None
        if 'lifecycle' in self.checks and len(self.case['ops']) % 2 == 0:
            # another world lives next to the one under test (a level that was switched out): dispatching disabled,
            # one handler component whose on_add is postponed.  Whatever happens to the world under test, that
            # callback stays postponed there and is delivered - once - when THAT world is enabled at the end
            self.neighbour = desper.World()
            self.neighbour.dispatch_enabled = False
            self.neighbour_log = []
            self.neighbour_comp = _NeighbourComp(self.neighbour_log)
            self.neighbour_entity = self.neighbour.create_entity(self.neighbour_comp)
            self.flags['neighbouring_world_with_a_postponed_callback'] += 1
        try:
            self.after_step(full=True)
            late_at = min(len(self.case['ops']), n) // 2
            for i, op in enumerate(self.ops):
                self.step_ix = i
                if self.late_specs and i == late_at:
                    for c in self.late_specs:
                        add_class(self.classes, self.eff_bases, c)
                        self.ev.append(declared(self.classes[-1]))
                    self.late_specs = []
                    self.flags['classes_defined_mid_history'] += 1
                self.step(op)
                self.after_step(full=(i % self.stride == 0 or i == n - 1))
            if self.amplified and not self.enabled and 'lifecycle' in self.checks:
                # a long disabled period is released at the end (and judged)
                self.step_ix = n
                self._owed = []
                self.op_toggle()
                self.after_step(full=True)
        except Abort:
            self.flags['aborted'] += 1
            if self.amplified:
                self.flags['amplified_aborted'] += 1
        finally:
            RecBase._observer = None
        if self.neighbour is not None:
            if self.neighbour_log:
                self.viol('postponed_callback_of_another_world_was_delivered_while_that_world_was_disabled',
                          got=[k for k, _a in self.neighbour_log])
            try:
                self.neighbour.dispatch_enabled = True
            except PropertyViolation:
                raise
            except Exception as exc:
                self.viol('enabling_the_neighbouring_world_raised', exception=repr(exc))
            got = [(k, a[0] == self.neighbour_entity and a[1] is self.neighbour) for k, a in self.neighbour_log]
            if got != [('on_add', True)]:
                self.viol('postponed_callback_of_another_world_not_delivered_exactly_once_when_it_was_enabled',
                          got=repr(self.neighbour_log)[:300])
        if has_diamond(self.classes):
            self.flags['diamond'] += 1
        return self


class _NeighbourComp:
    __events__ = {'on_add': 'on_add', 'on_remove': 'on_remove'}

    def __init__(self, log):
        self.log = log

    def on_add(self, *a):
        self.log.append(('on_add', a))

    def on_remove(self, *a):
        self.log.append(('on_remove', a))


def info_from(run, nontrivial, extra_classes=()):
    classes = sorted(k for k, v in run.flags.items() if v) + list(extra_classes)
    return {'nontrivial': bool(nontrivial), 'classes': classes, 'noops': run.noops, 'steps': run.steps,
            'excluded': dict(run.excluded)}
