"""Known findings (DESIGN 2.8).  The file is committed and read-only at run time.

    open:  property=C13 key=<key> witness=<corpus path> :: <what fails>
    fixed: property=C01 <commit> <what failed>

An open entry suppresses exactly the violations for which the predicate registered under <key> in the property
module's FINDINGS table holds (a pair of violated clause and trigger over the case); everything else is still
reported.  Fixed entries suppress nothing.
"""
import os
import re

HERE = os.path.dirname(os.path.dirname(os.path.abspath(__file__)))
PATH = os.path.join(HERE, 'KNOWN_FINDINGS.txt')

_OPEN = re.compile(r'^open:\s+property=(\S+)\s+key=(\S+)\s+witness=(\S+)\s+::\s+(.*)$')


def load_open(pid):
    out = []
    if not os.path.exists(PATH):
        return out
    with open(PATH) as f:
        for line in f:
            line = line.rstrip('\n')
            m = _OPEN.match(line)
            if m and m.group(1) == pid:
                out.append({'key': m.group(2), 'witness': m.group(3), 'what': m.group(4)})
    return out


class Matcher:
    def __init__(self, mod):
        self.entries = load_open(mod.ID)
        table = getattr(mod, 'FINDINGS', {})
        self.preds = []
        for e in self.entries:
            if e['key'] not in table:
                raise RuntimeError('KNOWN_FINDINGS key %s has no predicate in %s' % (e['key'], mod.__name__))
            self.preds.append((e['key'], table[e['key']]))

    def match(self, case, violation):
        for key, pred in self.preds:
            try:
                if pred(case, violation):
                    return key
            except Exception:
                continue
        return None
