"""Coverage-guided stage (atheris / libFuzzer) for a property module - optional amplifier of the thorough tier.

    python -m vlib.fuzz <ID> <runs> <seed> <out.json>

The SAME Hypothesis test function as the random tiers (strategy + interpreter + oracle) is driven through
``test.hypothesis.fuzz_one_input``: libFuzzer mutates the byte string Hypothesis draws its choices from, guided by
coverage of ``desper`` (instrumented at import).  A campaign is only approximately reproducible from its seed, so a
failure is first turned into the JSON case (the interpreter saw it) and reported through the same replay path as
every other violation; the deterministic replay decides.
"""
import json
import os
import sys
import tempfile
import time

HERE = os.path.dirname(os.path.dirname(os.path.abspath(__file__)))
REPO = os.path.realpath(os.environ.get('VERIF_REPO', '/repo'))
sys.path.insert(0, REPO)
sys.path.insert(1, HERE)
sys.path.insert(2, os.path.join(HERE, 'fixtures'))
sys.path.append(os.path.join(HERE, '.deps'))
sys.dont_write_bytecode = True


def main(argv):
    pid, runs, seed, out = argv[0].upper(), int(argv[1]), int(argv[2]), argv[3]
    import atheris
    with atheris.instrument_imports(include=['desper']):
        import desper   # noqa: F401
    from hypothesis import given, settings, HealthCheck
    from vlib.core import PropertyViolation, jsonable
    from vlib import runner

    mod = runner.load_module(pid)
    judge = runner.Judge(mod)
    state = {'n': 0, 't0': time.monotonic(), 'violation': None}

    @settings(database=None, deadline=None, suppress_health_check=list(HealthCheck))
    @given(mod.strategy())
    def prop(case):
        judge(case, sample=False)

    fuzz_one = prop.hypothesis.fuzz_one_input

    def finish(rc):
        res = {'shard': 'fuzz', 'violation': state['violation'], 'known_lines': [], 'harness_error': None,
               'stats': judge.stats.to_json(), 'fuzz_inputs': state['n'],
               'fuzz_exec_per_s': state['n'] / max(1e-6, time.monotonic() - state['t0'])}
        with open(out, 'w') as f:
            json.dump(res, f)
        sys.stdout.flush()
        os._exit(rc)

    def one(data):
        state['n'] += 1
        try:
            fuzz_one(data)
        except PropertyViolation as v:
            case = judge.failing[-1][0] if judge.failing else None
            # the deterministic replay decides
            v2 = judge.once(case) if case is not None else None
            if v2 is not None:
                state['violation'] = {'case': jsonable(case), 'clause': v2.clause, 'details': jsonable(v2.details),
                                      'origin': 'coverage-guided stage (atheris)'}
                finish(0)
            judge.failing.clear()
            judge.stats.shrinking = False
        if state['n'] >= runs:
            finish(0)

    corpus = tempfile.mkdtemp(prefix='fuzz-corpus-', dir=os.path.dirname(out))
    # Hypothesis needs a few hundred bytes to draw a whole history from: an empty corpus makes libFuzzer spend
    # its budget on inputs that are rejected as too short.  Start from pseudo-random strings derived from the
    # seed (plus the empty corpus libFuzzer always tries first).
    import hashlib
    for k in range(16):
        blob = b''.join(hashlib.sha256(b'%d-%d-%d' % (seed, k, j)).digest() for j in range(8 + 8 * (k % 8)))
        with open(os.path.join(corpus, 'seed%02d' % k), 'wb') as f:
            f.write(blob)
    atheris.Setup([sys.argv[0], '-runs=%d' % (runs * 2), '-seed=%d' % (seed or 1), '-max_len=4096',
                   '-verbosity=0', '-print_final_stats=0', corpus], one)
    atheris.Fuzz()
    finish(0)


if __name__ == '__main__':
    main(sys.argv[1:])
