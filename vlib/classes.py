"""Construction of class universes (DAGs of recorder component classes) from plain data."""
import desper

# bits of the "ev" shape of a class
EV_ADD, EV_REMOVE, EV_RENAMED, EV_PROBE, EV_FALSY, EV_EQ, EV_UNHASH, EV_INSTANCE, EV_LEAN = 1, 2, 4, 8, 16, 32, 64, 128, 256
CALLBACKS = ('on_add', 'on_remove', 'probe', 'added', 'removed')


class EqByMode:
    """Objects with optional value semantics (think of (frozen) dataclass components): with _eqmode 1 every such
    object equals every other one and they share one hash, with _eqmode 2 they are equal and unhashable.
    Equal-but-distinct objects are distinct components / handlers / processors / handles all the same."""
    _eqmode = 0

    def __eq__(self, other):
        if self._eqmode and getattr(other, '_eqmode', 0):
            return True
        return self is other

    def __ne__(self, other):
        return not self.__eq__(other)

    def __hash__(self):
        if self._eqmode == 2:
            raise TypeError('unhashable object (defines __eq__ without __hash__)')
        return 11 if self._eqmode else object.__hash__(self)


class RecBase(EqByMode):
    """Root of every generated component class: all callbacks exist, the decorator decides which are mapped.

    Callbacks append (kind, receiver, args) to the log of the run that created the instance."""
    _log = None
    ix = -1
    _falsy = False

    def __bool__(self):
        # EV_FALSY classes produce falsy instances (like an empty container-style component)
        return not self._falsy

    _observer = None    # set per run: called from inside every callback (what do queries say right now?)

    def _rec(self, kind, args):
        self._log.append((kind, self, args))
        if RecBase._observer is not None:
            RecBase._observer(self, kind, args)
        hook = self.__dict__.get('_react')
        if hook is not None:
            hook(self, kind, args)

    def _mapped(self, event, method):
        # every class has all four methods; the decorator decides which one an event is mapped to - running
        # on_add on a class that maps the event to `added` is running the wrong method
        return declared(self).get(event, method) == method

    def on_add(self, *a):
        self._rec('on_add' if self._mapped('on_add', 'on_add') else 'unmapped_method_on_add', a)

    def on_remove(self, *a):
        self._rec('on_remove' if self._mapped('on_remove', 'on_remove') else 'unmapped_method_on_remove', a)

    def added(self, *a):
        self._rec('on_add', a)

    def removed(self, *a):
        self._rec('on_remove', a)

    def probe(self, *a, **k):
        self._rec('probe', a)

    def __repr__(self):
        return '<%s#%d>' % (type(self).__name__, self.ix)


class _Absent:
    """Class attribute that makes a callback method of RecBase look undefined (hasattr False, getattr raises)."""
    def __set_name__(self, owner, name):
        self.name = name

    def __get__(self, obj, owner=None):
        raise AttributeError(self.name)


def _resolve(cls, name):
    for k in cls.__mro__:
        if name in vars(k):
            return vars(k)[name]
    return None


def declared(x):
    """Event -> method mapping an instance (or class) DECLARES, computed from the generated spec alone - never read
    back from what the library's decorator stored in __events__."""
    if not isinstance(x, type):
        own = x.__dict__.get('__events__') if hasattr(x, '__dict__') else None
        if own is not None:
            return own          # set by the generated __init__ (EV_INSTANCE), not by the library
        x = type(x)
    return getattr(x, '_declared', {})


def declares_anything(x):
    """Mirror of the EventHandler protocol (an __events__ attribute exists), from the spec alone."""
    if not isinstance(x, type) and '__events__' in getattr(x, '__dict__', {}):
        return True
    return hasattr(x if isinstance(x, type) else type(x), '_declared')


def add_class(classes, eff, c, root=RecBase, prefix='K', decorate=True, namespace=None):
    """Create class number len(classes) from its spec and append it (to ``classes`` and ``eff``)."""
    i = len(classes)
    idxs = sorted({b % i for b in c.get('bases', [])} if i else set(), reverse=True)
    # drop a base that is an ancestor of another chosen base
    keep = []
    for b in idxs:
        if not any(o != b and issubclass(classes[o], classes[b]) for o in idxs):
            keep.append(b)
    cls = None
    while True:
        bases = tuple(classes[b] for b in keep) or (root,)
        ns = dict(namespace(i) if namespace else {})
        try:
            cls = type('%s%d' % (prefix, i), bases, ns)
            break
        except TypeError:
            keep = keep[:-1]
    if c.get('ev', 0) & EV_FALSY:
        cls._falsy = True
    if c.get('ev', 0) & EV_UNHASH:
        cls._eqmode = 2
    elif c.get('ev', 0) & EV_EQ:
        cls._eqmode = 1
    if decorate and not (c.get('ev', 0) & EV_LEAN and not c.get('ev', 0) & EV_INSTANCE
                         and not getattr(cls, '_instance_events', False)) and any(
            isinstance(_resolve(cls, n), _Absent) for n in CALLBACKS):
        for name in CALLBACKS:      # a full class below a lean one defines every callback again
            setattr(cls, name, RecBase.__dict__[name])
    if decorate and c.get('ev', 0) & EV_INSTANCE:
        # the class declares nothing: every INSTANCE carries its own __events__ mapping (set in __init__), which is
        # all the EventHandler protocol asks for
        ev = c.get('ev', 0)
        mapping = {}
        if ev & EV_ADD:
            mapping['on_add'] = 'on_add'
        if ev & EV_REMOVE:
            mapping['on_remove'] = 'on_remove'
        if ev & EV_PROBE:
            mapping['probe'] = 'probe'

        def __init__(self, _mapping=mapping):
            self.__events__ = dict(_mapping)
        cls.__init__ = __init__
        cls._instance_events = True
    elif decorate:
        ev = c.get('ev', 0)
        names, maps = [], {}
        if ev & EV_RENAMED:
            if ev & EV_ADD:
                maps['on_add'] = 'added'
            if ev & EV_REMOVE:
                maps['on_remove'] = 'removed'
        else:
            if ev & EV_ADD:
                names.append('on_add')
            if ev & EV_REMOVE:
                names.append('on_remove')
        if ev & EV_PROBE:
            names.append('probe')
        if names or maps:
            # what the class declares = what its first ancestor (in lookup order) declares, extended and overridden
            # by its own decoration; computed here, independently of the decorator
            cls._declared = {**getattr(cls, '_declared', {}), **dict(zip(names, names)), **maps}
        if ev & EV_LEAN and not getattr(cls, '_instance_events', False):
            # a lean class defines only the callbacks it declares (as hand-written handler classes do): the other
            # callback methods of the recorder root do not exist on it
            used = set(getattr(cls, '_declared', {}).values())
            for name in CALLBACKS:
                if name not in used:
                    d = _Absent()
                    d.name = name
                    setattr(cls, name, d)
        for name in set(getattr(cls, '_declared', {}).values()):
            if isinstance(_resolve(cls, name), _Absent):
                setattr(cls, name, RecBase.__dict__[name])      # a declared callback always exists
        cls = desper.event_handler(*names, **maps)(cls)
    classes.append(cls)
    eff.append(list(keep))
    return cls


def build_dag(spec, root=RecBase, prefix='K', decorate=True, namespace=None):
    """spec: list of {"bases": [earlier indices], "ev": int}.  Returns (classes, effective_bases).

    Bases are made acceptable by construction: duplicates and redundant ancestors are dropped, more derived
    bases come first, and if Python still rejects the linearisation the base list is shortened."""
    classes = []
    eff = []
    for c in spec:
        add_class(classes, eff, c, root, prefix, decorate, namespace)
    return classes, eff


def has_diamond(classes):
    """True when some class is reachable from an ancestor by two distinct inheritance paths."""
    def paths(sub, top, memo):
        if sub is top:
            return 1
        key = (sub, top)
        if key in memo:
            return memo[key]
        n = sum(paths(b, top, memo) for b in sub.__bases__ if isinstance(b, type) and issubclass(b, top))
        memo[key] = n
        return n
    memo = {}
    for a in classes:
        for b in classes:
            if a is not b and issubclass(b, a) and paths(b, a, memo) >= 2:
                return True
    return False


def npaths(sub, top):
    if sub is top:
        return 1
    return sum(npaths(b, top) for b in sub.__bases__ if isinstance(b, type) and issubclass(b, top))
