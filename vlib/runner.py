"""Runner: tiers, shards, seeds, corpus replay, known findings, evidence, exit codes (DESIGN 2.1).

    python -m vlib.runner <ID> quick|thorough
    python -m vlib.runner <ID> --replay <path>
    python -m vlib.runner <ID> --shard <i> <n> <tier> <out.json>      (internal)
"""
import glob
import importlib
import json
import os
import shutil
import signal
import subprocess
import sys
import time
import traceback

HERE = os.path.dirname(os.path.dirname(os.path.abspath(__file__)))
REPO = os.path.realpath(os.environ.get('VERIF_REPO', '/repo'))
sys.path.insert(0, REPO)
if HERE not in sys.path:
    sys.path.insert(1, HERE)
sys.path.insert(2, os.path.join(HERE, 'fixtures'))
sys.dont_write_bytecode = True

from vlib.core import (PropertyViolation, HarnessError, Stats, merge_stats, fingerprint, jsonable,  # noqa: E402
                       canonical, with_budget, StepBudgetExceeded, raised_in_repo)


class CaseTimeout(BaseException):
    """Raised by the hang guard's alarm (BaseException so that no `except Exception` of a harness eats it)."""
from vlib import findings  # noqa: E402

NSHARDS = int(os.environ.get('VERIF_SHARDS', '16'))
WALL_CAP = {'quick': 420.0, 'thorough': 2700.0}


def seed_value():
    try:
        return int(os.environ.get('VERIF_SEED', '1'))
    except ValueError:
        return 1


def derive_seed(seed, shard):
    return (seed * 1000003 + shard * 7919 + 17) & 0x7fffffff


def load_module(pid):
    import desper
    where = os.path.realpath(desper.__file__)
    if not where.startswith(REPO + os.sep):
        raise HarnessError('desper imported from %s, expected under %s' % (where, REPO))
    return importlib.import_module('props.' + pid.lower())


class Judge:
    """Runs one case through the property module's oracle and books the outcome."""

    def __init__(self, mod):
        self.mod = mod
        self.stats = Stats()
        self.matcher = findings.Matcher(mod)
        self.failing = []       # cases that produced an unlisted violation (the last is the shrunk one)
        self.deadline = None
        self.budget_hit = False
        self.budget_mode = False

    # Hang guard.  A wall-clock alarm never decides anything: when a case runs for more than CASE_WALL seconds
    # it is interrupted and re-executed under the deterministic line budget of vlib.core (HANG_LINES executed
    # lines inside desper).  Only exceeding that budget is a verdict ("does not terminate"); from then on every
    # case of this process runs under the budget so that shrinking does not wait for the alarm again.
    CASE_WALL = 45.0
    HANG_LINES = 6000000

    def _guarded(self, case):
        if self.budget_mode:
            try:
                info, _n = with_budget(self.HANG_LINES, self.mod.run_case, case)
                return info
            except StepBudgetExceeded as exc:
                raise PropertyViolation('does_not_terminate', {'budget': str(exc)})

        def on_alarm(signum, frame):
            raise CaseTimeout()
        old = signal.signal(signal.SIGALRM, on_alarm)
        signal.setitimer(signal.ITIMER_REAL, self.CASE_WALL)
        try:
            return self.mod.run_case(case)
        except CaseTimeout:
            signal.setitimer(signal.ITIMER_REAL, 0)
            self.budget_mode = True
            self.stats.extra['hang_guard_triggered'] = 1
            return self._guarded(case)
        finally:
            signal.setitimer(signal.ITIMER_REAL, 0)
            signal.signal(signal.SIGALRM, old)

    def _run(self, case):
        """An exception that escapes the property module and was raised inside the code under test is the
        implementation failing on an input the generators consider legal: a violation ("handled or rejected
        cleanly, never crashes"), not a harness error.  Exceptions raised by harness code stay harness errors."""
        try:
            return self._guarded(case)
        except (PropertyViolation, CaseTimeout):
            raise
        except Exception as exc:
            if raised_in_repo(exc):
                raise PropertyViolation('unexpected_exception_inside_desper', {
                    'exception': repr(exc)[:500],
                    'where': traceback.format_exception(type(exc), exc, exc.__traceback__)[-3:]}) from None
            raise

    def __call__(self, case, sample=True):
        if self.deadline is not None and time.monotonic() > self.deadline:
            self.budget_hit = True
            return
        try:
            info = self._run(case)
        except PropertyViolation as v:
            key = self.matcher.match(case, v)
            if key is None:
                self.failing.append((case, v))
                self.stats.shrinking = True
                raise
            self.stats.known_hits[key] += 1
            info = dict(getattr(v, 'info', None) or {})
            info.setdefault('classes', []).append('known:' + key)
        self.stats.record(case, info, sample)

    def once(self, case):
        """Direct execution without booking; returns the violation or None (known findings -> None)."""
        try:
            self._run(case)
        except PropertyViolation as v:
            if self.matcher.match(case, v) is None:
                return v
        return None


def corpus_files(pid):
    return sorted(glob.glob(os.path.join(HERE, 'corpus', pid, '*.json')))


def load_case(path):
    with open(path) as f:
        data = json.load(f)
    if isinstance(data, dict) and 'case' in data:
        return data['case']
    return data


def run_shard(mod, tier, seed, shard, nshards):
    """Everything one process does.  Returns a result dict (stats + optional violation)."""
    import hypothesis
    from hypothesis import given, settings, HealthCheck, Phase

    judge = Judge(mod)
    judge.deadline = time.monotonic() + WALL_CAP[tier]
    result = {'shard': shard, 'violation': None, 'known_lines': [], 'harness_error': None}

    def violation_record(case, v):
        return {'case': jsonable(case), 'clause': v.clause, 'details': jsonable(v.details)}

    # 1. corpus + known-finding witnesses (shard 0 only): the seconds-long regression tier
    if shard == 0 and not os.environ.get('VERIF_NO_CORPUS'):
        open_by_witness = {os.path.join(HERE, e['witness']): e for e in judge.matcher.entries}
        for path in corpus_files(mod.ID):
            case = load_case(path)
            entry = open_by_witness.get(path)
            try:
                before = sum(judge.stats.known_hits.values())
                judge(case)
                if entry is not None and sum(judge.stats.known_hits.values()) > before:
                    result['known_lines'].append('KNOWN-FINDING: property=%s %s' % (mod.ID, entry['what']))
            except PropertyViolation as v:
                result['violation'] = violation_record(case, v)
                result['violation']['origin'] = 'corpus:' + os.path.relpath(path, HERE)
                result['stats'] = judge.stats.to_json()
                return result
        judge.stats.extra['corpus_cases'] = len(corpus_files(mod.ID))

    # 2. generated cases
    n = mod.BUDGET[tier]
    if n > 0:
        phases = [Phase.generate, Phase.shrink]
        if getattr(mod, 'USE_TARGET', False):
            phases.insert(1, Phase.target)
        st = settings(database=None, deadline=None, report_multiple_bugs=False, max_examples=n,
                      derandomize=False, phases=phases, print_blob=False,
                      suppress_health_check=[HealthCheck.too_slow, HealthCheck.data_too_large,
                                             HealthCheck.large_base_example],
                      stateful_step_count=50)

        @hypothesis.seed(derive_seed(seed, shard))
        @st
        @given(mod.strategy())
        def prop(case):
            judge(case)

        try:
            prop()
        except BaseException as exc:      # noqa: B902 - classify below
            if isinstance(exc, (KeyboardInterrupt, SystemExit)):
                raise
            found = None
            for case, _v in reversed(judge.failing):
                v2 = judge.once(case)
                if v2 is not None:
                    found = (case, v2)
                    break
            if found is None and judge.failing:
                # observed on the real code but not reproducible on replay (a schedule the harness does not
                # own, e.g. address-dependent set order): still a violation that was seen; say so in the record
                case, v = judge.failing[-1]
                found = (case, v)
                result['unreproducible'] = True
            if found is None:
                result['harness_error'] = ''.join(traceback.format_exception(type(exc), exc,
                                                                             exc.__traceback__))[-6000:]
            else:
                result['violation'] = violation_record(*found)
                result['violation']['origin'] = ('generated (seen once, not reproduced on replay)'
                                                 if result.get('unreproducible') else 'generated')

    # 3. enumerated finite sub-spaces
    if result['violation'] is None and result['harness_error'] is None and hasattr(mod, 'exhaustive'):
        judge.stats.shrinking = False
        try:
            mod.exhaustive(tier, shard, nshards, judge)
        except PropertyViolation as v:
            case = judge.failing[-1][0] if judge.failing else None
            result['violation'] = violation_record(case, v)
            result['violation']['origin'] = 'enumeration'
        except Exception as exc:
            result['harness_error'] = ''.join(traceback.format_exception(type(exc), exc, exc.__traceback__))[-6000:]

    judge.stats.extra['inconclusive_budget_hit'] = bool(judge.budget_hit)
    result['stats'] = judge.stats.to_json()
    return result


def write_replay(pid, violation):
    os.makedirs(os.path.join(HERE, 'replays'), exist_ok=True)
    fp = fingerprint(violation['case'])
    path = os.path.join(HERE, 'replays', '%s-%s.json' % (pid, fp))
    with open(path, 'w') as f:
        json.dump({'property': pid, 'clause': violation['clause'], 'details': violation['details'],
                   'origin': violation.get('origin'), 'case': violation['case']}, f, indent=1, sort_keys=True)
    return os.path.relpath(path, HERE)


def write_evidence(mod, tier, seed, merged, wall, nviol, nshards):
    samples = merged['nontrivial_samples'][:3] + merged['samples'][:1]
    if not samples:
        samples = merged['samples'][:2]
    cov = {
        'evaluations': merged['evaluations'],
        'distinct_nontrivial': len(merged['nontrivial']) + int(merged['extra'].get('enumerated_nontrivial', 0)),
        'rule': mod.RULE,
        'samples': samples,
        'distinct_cases': merged['distinct'],
        'implementation_executions': merged['executions'],
        'shrink_evaluations': merged['shrink_evaluations'],
        'class_histogram': dict(sorted(merged['hist'].items())),
        'known_findings_hit': dict(merged['known_hits']),
        'excluded_by_construction': dict(merged['excluded']),
        'noop_rate': (merged['noops'] / merged['steps']) if merged['steps'] else 0.0,
        'steps': merged['steps'],
        'shards': nshards,
        'exhaustive': bool(merged['exhaustive']) and merged['evaluations'] > 0 and bool(
            getattr(mod, 'EXHAUSTIVE_ONLY', False)),
        'exhaustive_subspaces': merged['exhaustive'],
        'explanation': getattr(mod, 'EXPLANATION', ''),
    }
    cov.update({k: v for k, v in merged['extra'].items() if k not in cov})
    ev = {
        'property_id': mod.ID, 'tier': tier, 'seed': seed, 'level': mod.LEVEL, 'coverage': cov,
        'assumptions': list(getattr(mod, 'ASSUMPTIONS', [])), 'wall_s': round(wall, 3), 'violations': nviol,
    }
    os.makedirs(os.path.join(HERE, 'evidence'), exist_ok=True)
    path = os.path.join(HERE, 'evidence', '%s.json' % mod.ID)
    tmp = path + '.tmp'
    with open(tmp, 'w') as f:
        json.dump(ev, f, indent=1, sort_keys=True)
        f.write('\n')
    os.replace(tmp, path)
    return ev


def limit_memory():
    """Safety net: a runaway case must end as a MemoryError in this process (harness error, exit 2), never as an
    out-of-memory kill of the machine.  8 GiB of address space per process is 40 times what a shard uses."""
    try:
        import resource
        cap = int(os.environ.get('VERIF_MEM_CAP_MB', '8192')) << 20
        soft, hard = resource.getrlimit(resource.RLIMIT_AS)
        if hard == resource.RLIM_INFINITY or hard > cap:
            resource.setrlimit(resource.RLIMIT_AS, (cap, hard))
    except Exception:
        pass


def main(argv):
    if len(argv) < 2:
        print(__doc__)
        return 2
    limit_memory()
    pid = argv[0].upper()
    t0 = time.monotonic()
    seed = seed_value()

    if argv[1] == '--replay':
        mod = load_module(pid)
        judge = Judge(mod)
        case = load_case(argv[2] if os.path.isabs(argv[2]) else os.path.join(os.getcwd(), argv[2]))
        v = judge.once(case)
        if v is not None:
            print('violated clause: %s' % v)
            print('VIOLATION property=%s replay=%s' % (pid, argv[2]))
            return 1
        print('replay passed')
        return 0

    if argv[1] == '--shard':
        shard, nshards, tier, out = int(argv[2]), int(argv[3]), argv[4], argv[5]
        mod = load_module(pid)
        res = run_shard(mod, tier, seed, shard, nshards)
        with open(out, 'w') as f:
            json.dump(res, f)
        return 0

    tier = argv[1]
    if tier not in ('quick', 'thorough'):
        print('unknown tier %r' % tier)
        return 2
    mod = load_module(pid)

    if tier == 'quick' or NSHARDS <= 1:
        nshards = 1
        results = [run_shard(mod, tier, seed, 0, 1)]
    else:
        nshards = NSHARDS
        work = os.path.join(HERE, '.work', '%s-%d' % (pid, os.getpid()))
        os.makedirs(work, exist_ok=True)
        procs = []
        try:
            for i in range(nshards):
                out = os.path.join(work, 'shard%d.json' % i)
                log = open(os.path.join(work, 'shard%d.log' % i), 'w')
                p = subprocess.Popen([sys.executable, '-m', 'vlib.runner', pid, '--shard', str(i), str(nshards),
                                      tier, out], cwd=HERE, stdout=log, stderr=subprocess.STDOUT)
                procs.append((p, out, log))
            # optional coverage-guided stage (vlib/fuzz.py) next to the random shards
            fuzz = None
            runs = getattr(mod, 'FUZZ_RUNS', 0)
            if runs and os.path.isdir(os.path.join(HERE, '.deps', 'atheris')):
                fout = os.path.join(work, 'fuzz.json')
                flog = open(os.path.join(work, 'fuzz.log'), 'w')
                fuzz = (subprocess.Popen([sys.executable, '-m', 'vlib.fuzz', pid, str(runs), str(seed), fout],
                                         cwd=HERE, stdout=flog, stderr=subprocess.STDOUT), fout, flog)
            results = []
            for i, (p, out, log) in enumerate(procs):
                rc = p.wait()
                log.close()
                if rc != 0 or not os.path.exists(out):
                    with open(log.name) as f:
                        tail = f.read()[-4000:]
                    results.append({'shard': i, 'violation': None, 'known_lines': [],
                                    'harness_error': 'shard %d exited %s\n%s' % (i, rc, tail),
                                    'stats': Stats().to_json()})
                else:
                    with open(out) as f:
                        results.append(json.load(f))
            fuzz_note = 'not run (no FUZZ_RUNS for this property)' if not runs else \
                'skipped: atheris is not installed under .deps (setup_cmd installs it from the offline wheelhouse)'
            if fuzz is not None:
                fp, fout, flog = fuzz
                try:
                    fp.wait(timeout=WALL_CAP['thorough'])
                except subprocess.TimeoutExpired:
                    fp.kill()
                flog.close()
                if os.path.exists(fout):
                    with open(fout) as f:
                        fr = json.load(f)
                    fr['stats']['extra']['coverage_guided_inputs'] = fr.get('fuzz_inputs', 0)
                    results.append(fr)
                    fuzz_note = 'atheris/libFuzzer drove the same Hypothesis test through fuzz_one_input: %d inputs ' \
                                'at %.0f exec/s' % (fr.get('fuzz_inputs', 0), fr.get('fuzz_exec_per_s', 0))
                else:
                    fuzz_note = 'coverage-guided stage produced no result (see DESIGN 7.1); ignored'
            for r in results:
                if 'stats' in r:
                    r['stats']['extra'].setdefault('coverage_guided_stage', fuzz_note)
        finally:
            for p, _o, _l in procs:
                if p.poll() is None:
                    p.kill()
            if 'fuzz' in locals() and fuzz is not None and fuzz[0].poll() is None:
                fuzz[0].kill()
            shutil.rmtree(work, ignore_errors=True)

    for r in results:
        for line in r['known_lines']:
            print(line)
    errors = [r for r in results if r['harness_error']]
    viols = [r['violation'] for r in results if r['violation']]
    merged = merge_stats([r['stats'] for r in results if 'stats' in r])
    wall = time.monotonic() - t0

    if errors and not viols:
        print('HARNESS ERROR in %d shard(s):' % len(errors), file=sys.stderr)
        print(errors[0]['harness_error'], file=sys.stderr)
        return 2

    if merged['evaluations'] > 0 and not os.environ.get('VERIF_NO_EVIDENCE'):
        write_evidence(mod, tier, seed, merged, wall, len(viols), nshards)
    print('%s %s seed=%d: evaluations=%d distinct_nontrivial=%d known=%s wall=%.1fs%s' % (
        pid, tier, seed, merged['evaluations'], len(merged['nontrivial']), dict(merged['known_hits']), wall,
        ' (budget hit: inconclusive)' if merged['extra'].get('inconclusive_budget_hit') else ''))

    if viols:
        v = min(viols, key=lambda x: len(canonical(x['case'])))
        path = write_replay(pid, v)
        print('violated clause: %s :: %s' % (v['clause'], json.dumps(v['details'], sort_keys=True)[:1500]))
        print('VIOLATION property=%s replay=%s' % (pid, path))
        return 1
    return 0


if __name__ == '__main__':
    try:
        rc = main(sys.argv[1:])
    except HarnessError as exc:
        print('HARNESS ERROR: %s' % exc, file=sys.stderr)
        rc = 2
    except Exception:
        traceback.print_exc()
        rc = 2
    sys.exit(rc)
