"""C18 - Vector and matrix operations compute their textbook definitions (DESIGN 3/C18)."""
import collections
import itertools
import math
import warnings
from fractions import Fraction

import desper.math as dm
from hypothesis import strategies as st

from vlib.core import PropertyViolation
from vlib import worldops

ID = 'C18'
LEVEL = 'exploration'
BUDGET = {'quick': 500, 'thorough': 4000}
RULE = ('Every case evaluates ALL operations of the statement on freshly generated operands. Exact regime: '
        'entries are fractions.Fraction with numerators in [-10^4, 10^4] and denominators in [1, 50] (and plain '
        'ints); oracles are independent textbook implementations with explicit index loops on row-major grids '
        '(entry-wise + - * / and negation, dot, cross, lerp, scale, clamp, A @ B, M @ v as the row-vector '
        'product fixed by (A @ B) @ v == B @ (A @ v), associativity, identity, transpose and its involution, '
        '~M against a Gaussian-elimination determinant: two-sided inverse exactly, or - for constructed '
        'singular matrices - the same object plus exactly one warning; from_translation / from_scale / '
        'translate by their action on points; orthogonal_projection by the images of the 8 box corners, with '
        'dyadic extents, half of the boxes given with a flipped x or y axis). Swizzling is ENUMERATED exhaustively per case: every string of length 2-4 over the '
        'component letters (28 / 117 / 336) plus invalid strings. Float regime (magnitudes in {0} u [1e-3, '
        '1e3], tolerance 1e-9 relative + 1e-9 absolute): abs/mag/distance (also of points 1e-6..1 apart but far from the origin, both ways round, and of a point to an equal copy; expected value computed exactly over the rationals and rounded once), normalize, from_magnitude, '
        'from_heading, from_polar, rotate (generated angles and landmark angles: exact float multiples of pi/2, pi/4, 15 degrees and pi, both signs, beyond a full turn), limit with |v|/m concentrated in [0.3, 3] and m on both sides of 1. '
        ''
        'In ~8% of the cases 64-520 distinct angles are swept twice through from_polar / from_heading. '
        ''
        'Matrix-times-vector is also evaluated with instances of user-defined subclasses of the vector classes. '
        'Non-trivial = all matrix entries non-zero and pairwise different and the limit ratio inside (0.3, 3) '
        'with m != 1. Distinct = sha1 of canonical JSON. By the Schwartz-Zippel bound a wrong polynomial of '
        'degree <= 4 agrees with the reference on one random point of this grid with probability <= 4/20001.')
ASSUMPTIONS = [
    'Mat3.translate/scale/rotate/shear, perspective_projection, look_at*, Mat4.rotate/scale are not in the '
    'statement and not checked',
    'NaN/inf and magnitudes outside [1e-3, 1e3] are outside "floats of moderate magnitude"',
    'limit: "unchanged" is only demanded when |v| <= m(1 - 1e-9); "not longer than m" up to m(1 + 1e-9)',
    'randomised identity testing decides polynomial identities with the stated error bound; it is not a proof',
]
FINDINGS = {}
NV = 64
TOL = 1e-9


def strategy():
    return st.fixed_dictionaries({
        'num': st.lists(st.integers(-10000, 10000), min_size=NV, max_size=NV),
        'den': st.lists(st.integers(1, 50), min_size=NV, max_size=NV),
        'flo': st.lists(st.integers(-10 ** 6, 10 ** 6), min_size=24, max_size=24),
        'sel': st.integers(0, 10 ** 6),
        # scale: 0, or the number of distinct angles a sweep passes through from_polar / from_heading, twice over
        'amp': worldops.size_amp(none=60, sizes=(64, 130, 257, 300, 520))})


def viol(clause, **d):
    raise PropertyViolation(clause, {k: repr(v)[:400] for k, v in d.items()})


def close(a, b, scale=1.0):
    return abs(a - b) <= TOL * max(abs(a), abs(b), scale) + TOL


# ---- reference implementations (row-major grids) -----------------------------------------------------------
def grid(m, n):
    return [[m[i * n + j] for j in range(n)] for i in range(n)]


def ref_matmul(a, b, n):
    A, B = grid(a, n), grid(b, n)
    return tuple(sum(A[i][k] * B[k][j] for k in range(n)) for i in range(n) for j in range(n))


def ref_vecmat(v, m, n):
    """row vector times matrix"""
    M = grid(m, n)
    return tuple(sum(v[i] * M[i][j] for i in range(n)) for j in range(n))


def ref_det(m, n):
    M = [list(map(Fraction, row)) for row in grid(m, n)]
    det = Fraction(1)
    for c in range(n):
        piv = next((r for r in range(c, n) if M[r][c] != 0), None)
        if piv is None:
            return Fraction(0)
        if piv != c:
            M[c], M[piv] = M[piv], M[c]
            det = -det
        det *= M[c][c]
        for r in range(c + 1, n):
            f = M[r][c] / M[c][c]
            for k in range(c, n):
                M[r][k] -= f * M[c][k]
    return det


IDENT3 = (1, 0, 0, 0, 1, 0, 0, 0, 1)
IDENT4 = (1, 0, 0, 0, 0, 1, 0, 0, 0, 0, 1, 0, 0, 0, 0, 1)
VEC = {2: dm.Vec2, 3: dm.Vec3, 4: dm.Vec4}
SUBVEC = {n: type('Point%d' % n, (c,), {}) for n, c in VEC.items()}     # user-defined subclasses
LETTERS = {2: 'xy', 3: 'xyz', 4: 'xyzw'}


def run_case(case):
    facts = collections.Counter()
    F = [Fraction(n, d) for n, d in zip(case['num'], case['den'])]
    sel = case['sel']
    # a few plain ints mixed in
    for k in range(0, NV, 7):
        if (sel >> (k % 20)) & 1:
            F[k] = case['num'][k] % 17 - 8

    exact_vectors(F, facts)
    exact_matrices(F, sel, facts)
    transforms(F, case['flo'], facts)
    swizzles(F)
    floats([x / 1000.0 for x in case['flo']], sel, facts, case.get('amp') or 0)
    nontrivial = facts['generic_matrices'] and facts['limit_ratio_in_band']
    return {'nontrivial': bool(nontrivial), 'classes': sorted(k for k, v in facts.items() if v)}


# ---- exact regime ---------------------------------------------------------------------------------------------
def exact_vectors(F, facts):
    for dim in (2, 3, 4):
        V = VEC[dim]
        a, b = F[0:dim], F[dim:2 * dim]
        va, vb = V(*a), V(*b)
        nz = [x if x != 0 else Fraction(1) for x in b]
        vnz = V(*nz)
        checks = [
            ('add', va + vb, [x + y for x, y in zip(a, b)]),
            ('sub', va - vb, [x - y for x, y in zip(a, b)]),
            ('mul', va * vb, [x * y for x, y in zip(a, b)]),
            ('truediv', va / vnz, [x / y for x, y in zip(a, nz)]),
            ('neg', -va, [-x for x in a]),
            ('scale', va.scale(F[20]), [x * F[20] for x in a]),
            ('lerp', va.lerp(vb, F[21]), [x + F[21] * (y - x) for x, y in zip(a, b)]),
        ]
        lo, hi = sorted((F[22], F[23]))
        checks.append(('clamp', va.clamp(lo, hi), [min(max(x, lo), hi) for x in a]))
        for name, got, want in checks:
            if type(got) is not V or list(got) != want:
                viol('vector_%s_is_entry_wise' % name, dim=dim, a=a, b=b, got=got, expected=want)
        if dim != 2 or True:
            d = va.dot(vb)
            if d != sum(x * y for x, y in zip(a, b)):
                viol('dot_product', dim=dim, a=a, b=b, got=d)
        if dim == 3:
            c = va.cross(vb)
            want = [a[1] * b[2] - a[2] * b[1], a[2] * b[0] - a[0] * b[2], a[0] * b[1] - a[1] * b[0]]
            if type(c) is not dm.Vec3 or list(c) != want:
                viol('cross_product', a=a, b=b, got=c, expected=want)
            if c.dot(va) != 0 or c.dot(vb) != 0:
                viol('cross_product_is_orthogonal_to_its_operands', a=a, b=b)
    x, lo, hi = F[24], *sorted((F[25], F[26]))
    if dm.clamp(x, lo, hi) != min(max(x, lo), hi):
        viol('scalar_clamp', x=x, lo=lo, hi=hi, got=dm.clamp(x, lo, hi))


def exact_matrices(F, sel, facts):
    for n, M, ident, off in ((3, dm.Mat3, IDENT3, 0), (4, dm.Mat4, IDENT4, 0)):
        nn = n * n
        a, b, c = tuple(F[off:off + nn]), tuple(F[16:16 + nn]), tuple(F[32:32 + nn])
        A, B, C = M(a), M(b), M(c)
        if n == 4 and len(set(a)) == 16 and all(x != 0 for x in a):
            facts['generic_matrices'] += 1
        AB = A @ B
        want = ref_matmul(a, b, n)
        if type(AB) is not M or tuple(AB) != want:
            viol('matmul_is_the_row_by_column_product_of_the_written_grids', n=n, a=a, b=b, got=tuple(AB),
                 expected=want)
        if tuple((A @ B) @ C) != tuple(A @ (B @ C)):
            viol('matmul_is_associative', n=n)
        I = M()
        # the default matrix holds floats (1.0 / 0.0): checked on the integer numerators, where float
        # arithmetic is exact
        ai = tuple(x.numerator if isinstance(x, Fraction) else x for x in a)
        Ai = M(ai)
        if tuple(I) != ident or tuple(I @ Ai) != ai or tuple(Ai @ I) != ai:
            viol('default_matrix_is_the_two_sided_identity', n=n, identity=tuple(I))
        v = tuple(F[48:48 + n])
        Vn = VEC[n]
        got = A @ Vn(*v)
        wantv = ref_vecmat(v, a, n)
        if type(got) is not Vn or tuple(got) != wantv:
            viol('matrix_times_vector_is_the_row_vector_product', n=n, a=a, v=v, got=tuple(got), expected=wantv)
        if tuple((A @ B) @ Vn(*v)) != tuple(B @ (A @ Vn(*v))):
            viol('product_then_vector_equals_successive_application', n=n)
        # a point type of the program (a subclass of the library's vector) is a vector all the same
        sub = SUBVEC[n](*v)
        try:
            gots = A @ sub
        except Exception as exc:
            viol('matrix_times_vector_is_the_row_vector_product', n=n, operand='instance of a Vec subclass',
                 exception=repr(exc))
        if len(tuple(gots)) != n or tuple(gots) != wantv:
            viol('matrix_times_vector_is_the_row_vector_product', n=n, a=a, v=v, got=tuple(gots), expected=wantv,
                 operand='instance of a Vec subclass (%s)' % type(sub).__name__)
        for name, got, wantm in (('add', A + B, [x + y for x, y in zip(a, b)]),
                                 ('sub', A - B, [x - y for x, y in zip(a, b)]),
                                 ('neg', -A, [-x for x in a])):
            if type(got) is not M or list(got) != wantm:
                viol('matrix_%s_is_entry_wise' % name, n=n)
    # structured operands: affine-looking matrices (last column (0, 0, 0, w)), negated and summed transforms -
    # the shapes on which a special-cased fast path of the product would be taken
    for w1, w2 in ((1, 1), (F[61], F[61]), (2, 2), (-1, -1), (F[61], F[62]), (0, 0), (Fraction(1, 2), Fraction(1, 2))):
        a, b = list(F[0:16]), list(F[16:32])
        for m_, w in ((a, w1), (b, w2)):
            m_[3], m_[7], m_[11], m_[15] = 0, 0, 0, w
        got = dm.Mat4(tuple(a)) @ dm.Mat4(tuple(b))
        want = ref_matmul(a, b, 4)
        if tuple(got) != want:
            viol('matmul_is_the_row_by_column_product_of_the_written_grids', n=4, structured='last column (0,0,0,w)',
                 w=(w1, w2), got=tuple(got), expected=want)
        # transposed shape: last row (0, 0, 0, w)
        at, bt = list(F[0:16]), list(F[16:32])
        for m_, w in ((at, w1), (bt, w2)):
            m_[12], m_[13], m_[14], m_[15] = 0, 0, 0, w
        got = dm.Mat4(tuple(at)) @ dm.Mat4(tuple(bt))
        if tuple(got) != ref_matmul(at, bt, 4):
            viol('matmul_is_the_row_by_column_product_of_the_written_grids', n=4, structured='last row (0,0,0,w)',
                 w=(w1, w2))
    facts['structured_affine_operands'] += 1
    A4, B4 = dm.Mat4(tuple(F[0:16])), dm.Mat4(tuple(F[16:32]))
    if tuple((-A4) @ (-B4)) != tuple(A4 @ B4):
        viol('product_of_negated_matrices_equals_the_product')
    C4 = dm.Mat4(tuple(F[32:48]))
    if tuple((A4 + B4) @ C4) != tuple((A4 @ C4) + (B4 @ C4)):
        viol('matmul_distributes_over_addition')
    a = tuple(F[0:16])
    A = dm.Mat4(a)
    T = A.transpose()
    G = grid(a, 4)
    if type(T) is not dm.Mat4 or tuple(T) != tuple(G[j][i] for i in range(4) for j in range(4)):
        viol('transpose_swaps_rows_and_columns', a=a, got=tuple(T))
    if tuple(T.transpose()) != a:
        viol('transpose_is_an_involution')
    # structured matrices: symmetric except for ONE pair of entries (translations along one axis, projections and
    # the like are of this kind), and fully symmetric ones
    pairs = [(i, j) for i in range(4) for j in range(i + 1, 4)]
    for (pi, pj) in [pairs[sel % 6], pairs[(sel // 6) % 6]]:
        g = [[F[(i * j + i + j) % 16] if i != j else F[16 + i] for j in range(4)] for i in range(4)]    # symmetric
        g[pi][pj] = F[40] + 1 if F[40] + 1 != g[pj][pi] else F[40] + 2
        flat = tuple(g[i][j] for i in range(4) for j in range(4))
        got = dm.Mat4(flat).transpose()
        if tuple(got) != tuple(g[j][i] for i in range(4) for j in range(4)):
            viol('transpose_swaps_rows_and_columns', a=flat, got=tuple(got), differing_pair=(pi, pj))
    tz = dm.Mat4.from_translation(dm.Vec3(0, 0, F[41] if F[41] else 1))
    gz = grid(tuple(tz), 4)
    if tuple(tz.transpose()) != tuple(gz[j][i] for i in range(4) for j in range(4)):
        viol('transpose_swaps_rows_and_columns', a=tuple(tz), got=tuple(tz.transpose()))
    # inverse: generic, structured and constructed singular matrices
    kind = sel % 6
    m = list(a)
    if kind == 1:                               # rank deficient: last row = combination of the first two
        for j in range(4):
            m[12 + j] = F[50] * m[j] + F[51] * m[4 + j]
    elif kind == 2:                             # a zero row
        r = (sel // 6) % 4
        for j in range(4):
            m[4 * r + j] = 0
    elif kind == 3:                             # rank one
        u, w = F[52:56], F[56:60]
        m = [u[i] * w[j] for i in range(4) for j in range(4)]
    elif kind == 4:                             # affine transform (typical use)
        m[3], m[7], m[11], m[15] = 0, 0, 0, 1
    elif kind == 5:                             # two equal columns
        for i in range(4):
            m[4 * i + 2] = m[4 * i + 1]
    # uniform scalings: invertible matrices whose determinant is tiny or huge (1e-3 .. 1e-5 per axis)
    factor = [1, 1, Fraction(1, 1000), Fraction(1, 100000), 1000, Fraction(3, 2000)][(sel // 24) % 6]
    if factor != 1:
        m = [x * factor for x in m]
        facts['scaled_matrix_for_inverse'] += 1
    Mx = dm.Mat4(tuple(m))
    det = ref_det(m, 4)
    if det != 0 and abs(det) < Fraction(1, 10 ** 9):
        facts['invertible_with_tiny_determinant'] += 1
    with warnings.catch_warnings(record=True) as caught:
        warnings.simplefilter('always')
        inv = ~Mx
    if det == 0:
        facts['singular_matrix'] += 1
        if inv is not Mx and tuple(inv) != tuple(Mx):
            viol('singular_matrix_is_returned_unchanged', m=m, got=tuple(inv))
        if len(caught) != 1:
            viol('singular_matrix_is_reported_by_exactly_one_warning', warnings=len(caught))
    else:
        facts['invertible_matrix:%d' % kind] += 1
        if caught:
            viol('warning_for_a_non_singular_matrix', m=m)
        if type(inv) is not dm.Mat4 or tuple(Mx @ inv) != IDENT4 or tuple(inv @ Mx) != IDENT4:
            viol('invert_is_the_two_sided_inverse', m=m, det=det, left=tuple(inv @ Mx), right=tuple(Mx @ inv))


def transforms(F, flo, facts):
    # from_translation / from_scale build matrices holding floats (1.0 / 0.0): integer operands keep the
    # arithmetic exact
    def num(x):
        return x.numerator if isinstance(x, Fraction) else x
    tF = F[0:3]
    t = [num(x) for x in F[0:3]]
    p = [num(x) for x in F[3:6]]
    point = dm.Vec4(p[0], p[1], p[2], 1)
    T = dm.Mat4.from_translation(dm.Vec3(*t))
    if tuple(T @ point) != (p[0] + t[0], p[1] + t[1], p[2] + t[2], 1):
        viol('from_translation_translates_points', t=t, p=p, got=tuple(T @ point))
    direction = dm.Vec4(p[0], p[1], p[2], 0)
    if tuple(T @ direction) != (p[0], p[1], p[2], 0):
        viol('from_translation_leaves_directions_alone', t=t)
    s = [num(x) for x in F[6:9]]
    S = dm.Mat4.from_scale(dm.Vec3(*s))
    if tuple(S @ point) != (p[0] * s[0], p[1] * s[1], p[2] * s[2], 1):
        viol('from_scale_scales_points', s=s, p=p, got=tuple(S @ point))
    a = tuple(F[16:32])
    A = dm.Mat4(a)
    got = A.translate(dm.Vec3(*tF))
    want = ref_matmul(a, (1, 0, 0, 0, 0, 1, 0, 0, 0, 0, 1, 0, tF[0], tF[1], tF[2], 1), 4)
    if type(got) is not dm.Mat4 or tuple(got) != want:
        viol('translate_appends_a_translation', a=a, t=tF, got=tuple(got), expected=want)
    if tuple(dm.Mat4().translate(dm.Vec3(*t)) @ point) != (p[0] + t[0], p[1] + t[1], p[2] + t[2], 1):
        viol('translate_of_identity_translates_points', t=t)
    # orthogonal projection: dyadic extents so that every quotient is exact in binary floating point
    def dy(i):
        return (flo[i] % 4001 - 2000) / 8.0
    left, bottom, near = dy(0), dy(1), abs(dy(2)) + 0.125
    w, h, d = 2.0 ** (flo[3] % 7 - 2), 2.0 ** (flo[4] % 7 - 2), 2.0 ** (flo[5] % 7 - 2)
    right, top, far = left + w, bottom + h, near + d
    # the view box may be given with a flipped axis (y-down screen coordinates: bottom > top; a mirrored x): the
    # formula is the same - the first bound goes to -1, the second to +1
    if flo[6] % 4 in (1, 3):
        bottom, top = top, bottom
        facts['orthogonal_projection_with_a_flipped_axis'] += 1
    if flo[6] % 4 in (2, 3):
        left, right = right, left
        facts['orthogonal_projection_with_a_flipped_axis'] += 1
    P = dm.Mat4.orthogonal_projection(left, right, bottom, top, near, far)
    for (x, ex), (y, ey), (z, ez) in itertools.product(((left, -1), (right, 1)), ((bottom, -1), (top, 1)),
                                                       ((-near, -1), (-far, 1))):
        img = tuple(P @ dm.Vec4(x, y, z, 1))
        if img != (ex, ey, ez, 1):
            viol('orthogonal_projection_maps_box_corners_to_cube_corners', box=(left, right, bottom, top, near, far),
                 corner=(x, y, z), got=img, expected=(ex, ey, ez, 1))


def swizzles(F):
    for dim in (2, 3, 4):
        v = VEC[dim](*F[60 - dim:60])
        letters = LETTERS[dim]
        for L in (2, 3, 4):
            for combo in itertools.product(letters, repeat=L):
                name = ''.join(combo)
                try:
                    got = getattr(v, name)
                except Exception as exc:
                    viol('swizzle_raised', dim=dim, name=name, exception=exc)
                if type(got) is not VEC[L] or tuple(got) != tuple(v[letters.index(ch)] for ch in combo):
                    viol('swizzle_returns_the_named_components', dim=dim, name=name, got=got)
        foreign = 'xyzw'[dim:] + 'q'
        for name in ('x' + foreign[0], foreign[0] + 'y', 'xyxyx', 'xq', 'xy' + foreign[0], 'qq'):
            try:
                got = getattr(v, name)
            except AttributeError:
                continue
            except Exception as exc:
                viol('invalid_swizzle_raised_other_than_AttributeError', dim=dim, name=name, exception=exc)
            viol('invalid_swizzle_accepted', dim=dim, name=name, got=got)


# ---- float regime ---------------------------------------------------------------------------------------------
def moderate(x):
    return 0.0 if abs(x) < 1e-3 else x


def floats(f, sel, facts, amp=0):
    f = [moderate(x) for x in f]
    for dim in (2, 3, 4):
        V = VEC[dim]
        a, b = f[0:dim], f[dim:2 * dim]
        va, vb = V(*a), V(*b)
        la = math.sqrt(sum(x * x for x in a))
        if not close(abs(va), la) or (hasattr(va, 'mag') and not close(va.mag, la)):
            viol('abs_and_mag_are_the_euclidean_length', dim=dim, a=a, got=abs(va), expected=la)
        dist = math.sqrt(sum((x - y) ** 2 for x, y in zip(a, b)))
        if not close(va.distance(vb), dist):
            viol('distance_is_the_euclidean_distance', dim=dim, a=a, b=b, got=va.distance(vb), expected=dist)
        # points close to each other but far from the origin (an object homing in on its target): the components are of
        # moderate magnitude, their differences are small; the expected value is computed exactly from the float
        # entries (rationals) and rounded once
        step = 10.0 ** -(sel % 7)
        near = [moderate(x + f[8 + i] * step / 1000.0) if x else x for i, x in enumerate(a)]
        exact_sq = sum((Fraction(y) - Fraction(x)) ** 2 for x, y in zip(a, near))
        want = math.sqrt(exact_sq)
        for p_, q_, w_ in ((va, V(*near), want), (V(*near), va, want), (va, V(*a), 0.0)):
            try:
                got = p_.distance(q_)
            except Exception as exc:
                viol('distance_raised', dim=dim, a=p_, b=q_, exception=exc, expected=w_)
            if not close(got, w_):
                viol('distance_is_the_euclidean_distance', dim=dim, a=p_, b=q_, got=got, expected=w_)
        if 0 < want < 1e-2 and la > 100:
            facts['distance_of_close_points_far_from_the_origin'] += 1
        nrm = va.normalize()
        if la == 0:
            if tuple(nrm) != tuple(va):
                viol('normalize_leaves_the_zero_vector_alone', dim=dim, got=nrm)
        else:
            if not close(abs(nrm), 1.0):
                viol('normalize_yields_a_unit_vector', dim=dim, a=a, got=abs(nrm))
            if not all(close(x, la * y, la) for x, y in zip(a, nrm)):
                viol('normalize_keeps_the_direction', dim=dim, a=a, got=nrm)
    # Vec2 / Vec3 helpers
    m = abs(f[8]) if f[8] else 1.0
    for dim in (2, 3):
        V = VEC[dim]
        a = f[0:dim]
        va = V(*a)
        la = abs(va)
        fm = va.from_magnitude(m)
        if la > 0:
            if not close(abs(fm), m, m):
                viol('from_magnitude_sets_the_length', dim=dim, a=a, m=m, got=abs(fm))
            if not all(close(x * m, y * la, m * la) for x, y in zip(a, fm)):
                viol('from_magnitude_keeps_the_direction', dim=dim, a=a, m=m, got=fm)
        if la > 0:
            for zero in (0, 0.0, Fraction(0)):
                z = va.limit(zero)
                if abs(z) > 1e-12:
                    viol('limit_never_returns_a_vector_longer_than_m', dim=dim, v=va, m=zero, got=z, length=abs(z))
        # limit: ratio |v|/m concentrated in [0.3, 3], m on both sides of 1
        if la > 0:
            ratio = [0.3, 0.5, 0.8, 0.95, 1.05, 1.25, 1.7, 2.4, 3.0][sel % 9]
            for mm in (m, 1.0 / m if m else 1.0, [0.5, 2.0, 0.9, 4.0][sel % 4]):
                vv = va.scale(ratio * mm / la)
                lv = abs(vv)
                lim = vv.limit(mm)
                if abs(lim) > mm * (1 + 1e-9) + 1e-12:
                    viol('limit_never_returns_a_vector_longer_than_m', dim=dim, v=vv, m=mm, got=lim, length=abs(lim))
                if lv <= mm * (1 - 1e-9) and tuple(lim) != tuple(vv):
                    viol('limit_leaves_short_enough_vectors_unchanged', dim=dim, v=vv, m=mm, got=lim)
                if lv > mm * (1 + 1e-9):
                    if not close(abs(lim), mm, mm) or not all(close(x * mm, y * lv, mm * lv) for x, y in zip(vv, lim)):
                        viol('limit_shortens_to_m_keeping_the_direction', dim=dim, v=vv, m=mm, got=lim)
                if 0.3 < ratio < 3 and mm != 1.0:
                    facts['limit_ratio_in_band'] += 1
    # Vec2 angles
    a = f[0:2]
    va = dm.Vec2(*a)
    la = abs(va)
    ang = f[9] / 100.0
    if la > 0:
        fh = va.from_heading(ang)
        if not close(abs(fh), la, la):
            viol('from_heading_keeps_the_length', a=a, heading=ang, got=abs(fh))
        if not (close(fh[0], la * math.cos(ang), la) and close(fh[1], la * math.sin(ang), la)):
            viol('from_heading_sets_the_heading', a=a, heading=ang, got=fh)
        rot = va.rotate(ang)
        h0 = math.atan2(a[1], a[0])
        if not close(abs(rot), la, la):
            viol('rotate_keeps_the_length', a=a, angle=ang, got=abs(rot))
        if not (close(rot[0], la * math.cos(h0 + ang), la) and close(rot[1], la * math.sin(h0 + ang), la)):
            viol('rotate_advances_the_heading', a=a, angle=ang, got=rot)
        if not close(math.cos(va.heading), a[0] / la) or not close(math.sin(va.heading), a[1] / la):
            viol('heading_is_the_angle_of_the_vector', a=a, got=va.heading)
        # landmark angles (exact float multiples of pi/2, pi/4, 15 degrees; both signs; more than a full turn):
        # the angles programs actually pass, and the ones an implementation is tempted to special-case
        k = sel % 33 - 16
        for lm in (k * math.pi / 2, k * math.pi / 4, math.radians(15 * k), -(k * math.pi / 2), k * math.pi):
            for v_, l_, h_ in ((va, la, h0), (dm.Vec2(1.0, 0.0), 1.0, 0.0), (dm.Vec2(0.0, 2.0), 2.0, math.pi / 2)):
                rot = v_.rotate(lm)
                if not close(abs(rot), l_, l_):
                    viol('rotate_keeps_the_length', a=v_, angle=lm, got=abs(rot))
                if not (close(rot[0], l_ * math.cos(h_ + lm), l_) and close(rot[1], l_ * math.sin(h_ + lm), l_)):
                    viol('rotate_advances_the_heading', a=v_, angle=lm, got=rot)
                fh = v_.from_heading(lm)
                if not (close(fh[0], l_ * math.cos(lm), l_) and close(fh[1], l_ * math.sin(lm), l_)):
                    viol('from_heading_sets_the_heading', a=v_, heading=lm, got=fh)
            fp = dm.Vec2.from_polar(2.5, lm)
            if not (close(fp[0], 2.5 * math.cos(lm), 2.5) and close(fp[1], 2.5 * math.sin(lm), 2.5)):
                viol('from_polar_builds_the_vector_of_that_magnitude_and_angle', r=2.5, angle=lm, got=fp)
        facts['landmark_angles'] += 1
    if amp:
        # a turret sweeping: many distinct angles one after the other, then the same angles again - the answer for an
        # angle does not depend on which angles were asked before
        n = amp
        step = (int(f[9]) % 7 + 1) * math.pi / 180
        for rnd in range(2):
            for k in range(n):
                ak = ang + k * step
                fpk = dm.Vec2.from_polar(2.0, ak)
                fhk = dm.Vec2(3.0, 4.0).from_heading(ak)
                if not (close(fpk[0], 2 * math.cos(ak), 2) and close(fpk[1], 2 * math.sin(ak), 2)):
                    viol('from_polar_builds_the_vector_of_that_magnitude_and_angle', r=2.0, angle=ak, got=fpk,
                         sweep_round=rnd, position=k)
                if not (close(fhk[0], 5 * math.cos(ak), 5) and close(fhk[1], 5 * math.sin(ak), 5)):
                    viol('from_heading_sets_the_heading', a=(3.0, 4.0), heading=ak, got=fhk, sweep_round=rnd,
                         position=k)
        facts['angle_sweep'] += 1
    r = f[10]
    fp = dm.Vec2.from_polar(r, ang)
    if not close(abs(fp), abs(r), abs(r)) or not (close(fp[0], r * math.cos(ang), abs(r))
                                                    and close(fp[1], r * math.sin(ang), abs(r))):
        viol('from_polar_builds_the_vector_of_that_magnitude_and_angle', r=r, angle=ang, got=fp)
