"""C07 - Processors run once per frame in priority order, one per type (DESIGN 3/C07)."""
import collections
from fractions import Fraction

import desper
from hypothesis import strategies as st

from vlib.core import PropertyViolation
from vlib.classes import build_dag, EqByMode, EV_EQ
from vlib import worldops

ID = 'C07'
LEVEL = 'exploration'
BUDGET = {'quick': 1500, 'thorough': 5000}
RULE = ('Dispatching may be disabled for stretches of the history (toggle): the lifecycle callbacks of processors added, replaced or removed meanwhile are postponed - none runs while disabled, all of them are delivered once when dispatching is enabled again. Hypothesis-generated histories of add_processor(new or previously removed instance, priority in '
        '{None, -3..3}) / remove_processor(type) / process(dt) over a generated hierarchy of 3-6 Processor '
        'subclasses with class-level priority defaults (incl. 0, negatives, inherited), handler flags and, for some '
        'classes, value equality (equal-but-distinct processors of different types); handler processors have '
        'no-argument on_add/on_remove, and an add_processor call may be one whose on_add raises; processors can be armed so that their next process() adds or removes a '
        'processor from inside the frame (then: processors registered at frame start and not removed during it '
        'run exactly once and in order, removed or added ones at most once). Oracle: reference list kept sorted by the priority each instance had '
        'when added, insertion after equal keys, one entry per exact type; compared by identity with '
        'World.processors after every step and with the call log of every process(dt) (same dt object). '
        ''
        'In ~15% of the cases every re-add turns into a priority walk: the type is added 64-150 times over with priorities fanning out. '
        ''
        'Some classes map on_add / on_remove to differently named methods, some take the dt positional-only under another name; an add_processor may be one whose on_add raises. '
        'Non-trivial = >= 3 processors alive at a process() with a priority tie, or an explicit priority 0 or '
        'negative overriding a different default, or a replacement of a same-type processor. Distinct = sha1 of '
        'canonical JSON.')
ASSUMPTIONS = [
    'dispatching stays enabled (the quantifier has no toggles)',
    'an add_processor whose on_add raises leaves an unspecified but self-consistent world: processors is adopted '
    'as the model (one per exact type, sorted), later steps are judged as usual',
    'which of several matching subclass processors remove_processor(T) detaches is not fixed (any match unless '
    'an exact-type processor exists)',
    'the priority of an instance is not changed by the harness while it is registered',
]
FINDINGS = {}

PRIOS = [None, -3, -2, -1, 0, 1, 2, 3]
DEFAULTS = [None, None, 0, 1, -1, 2, 5]
P_ADD, P_REMOVE, P_RENAMED, P_POSONLY = 1, 2, 4, 8


class AddFailed(Exception):
    pass


class ProcRec(EqByMode, desper.Processor):
    _log = None
    ix = -1

    def process(self, dt=1):
        self._log.append(('process', self, dt))
        hook = self.__dict__.pop('_script', None)
        if hook is not None:
            hook()

    def _mapped(self, event, method):
        # which method does this processor's class map the event to?  (on_add / on_remove exist on every class:
        # calling them on a class that maps the event to another method is calling the wrong method)
        return getattr(type(self), '_declared', {}).get(event, method) == method

    def on_add(self, *a):
        self._log.append(('on_add' if self._mapped('on_add', 'on_add') else 'unmapped_method_on_add', self, a))
        if self.__dict__.pop('_fail_add', False):
            raise AddFailed(repr(self))     # user code failing in the processor's on_add

    def on_remove(self, *a):
        self._log.append(('on_remove' if self._mapped('on_remove', 'on_remove') else 'unmapped_method_on_remove',
                          self, a))

    def added(self, *a):
        self._log.append(('on_add', self, a))
        if self.__dict__.pop('_fail_add', False):
            raise AddFailed(repr(self))

    def removed(self, *a):
        self._log.append(('on_remove', self, a))

    def __repr__(self):
        return '<%s#%d prio=%r>' % (type(self).__name__, self.ix, self.priority)


def _process_positional_only(self, delta_time, /):
    ProcRec.process(self, delta_time)


def decode_class(p):
    # EV_EQ: processors with value semantics - equal-but-distinct instances of different classes
    ev = (0, 0, P_ADD | P_REMOVE, P_ADD, P_REMOVE, EV_EQ, EV_EQ | P_ADD | P_REMOVE,
          P_RENAMED | P_ADD | P_REMOVE, P_RENAMED | P_ADD, P_POSONLY, P_POSONLY | P_ADD | P_REMOVE)[p % 11]
    p //= 11
    default = DEFAULTS[p % len(DEFAULTS)]
    p //= len(DEFAULTS)
    nb = (0, 1, 1, 2)[p % 4]
    p //= 4
    bases = []
    for _ in range(nb):
        bases.append(p % 6)
        p //= 6
    return {'bases': bases, 'ev': ev, 'prio': default}


def decode_op(t):
    sel, p = t
    d = [(p >> (4 * i)) & 15 for i in range(4)]
    kind = ('add', 'add', 'add', 'add', 'remove', 'process', 'process', 'readd', 'arm', 'process', 'failadd', 'toggle')[sel % 12]
    if kind == 'toggle':
        return ['toggle']
    if kind == 'failadd':
        return ['failadd', d[0] % 6, PRIOS[d[1] % len(PRIOS)]]
    if kind == 'arm':
        return ['arm', d[0], d[1] % 2, d[2] % 6, PRIOS[d[3] % len(PRIOS)]]
    if kind == 'add':
        return ['add', d[0] % 6, PRIOS[d[1] % len(PRIOS)]]
    if kind == 'readd':
        return ['readd', d[0], PRIOS[d[1] % len(PRIOS)]]
    if kind == 'remove':
        return ['remove', d[0] % 6]
    return ['process', d[0] % 4]


def strategy():
    cls = worldops.packed(11 * len(DEFAULTS) * 4 * 36).map(decode_class)
    op = st.tuples(st.integers(0, 11), worldops.packed(16 ** 4)).map(decode_op)
    return st.fixed_dictionaries({'classes': st.lists(cls, min_size=3, max_size=6),
                                  'ops': worldops.chunked(op, 40),
                                  # scale: 0, or the length of the priority walk every "readd" turns into (the same
                                  # type added again and again, each time with another priority)
                                  'amp': worldops.size_amp()})


def run_case(case):
    log = []
    flags = collections.Counter()

    def viol(clause, **d):
        d['step'] = step_ix
        d['op'] = case['ops'][step_ix] if 0 <= step_ix < len(case['ops']) else None
        raise PropertyViolation(clause, d)

    def ns(i):
        pr = case['classes'][i].get('prio')
        d = {'priority': pr} if pr is not None else {}
        if case['classes'][i].get('ev', 0) & P_POSONLY:
            d['process'] = _process_positional_only     # a processor names (and takes) its parameter as it likes
        return d

    classes, _ = build_dag(case['classes'], root=ProcRec, prefix='P', decorate=False, namespace=ns)
    for spec, cls in zip(case['classes'], classes):
        ev = spec.get('ev', 0)
        names = [n for bit, n in ((P_ADD, 'on_add'), (P_REMOVE, 'on_remove')) if ev & bit]
        if names and ev & P_RENAMED:
            # event_handler(on_add='added', on_remove='removed'): the callbacks are not named like the events (the
            # inherited on_add / on_remove of ProcRec must NOT be what runs)
            own = {nm: {'on_add': 'added', 'on_remove': 'removed'}[nm] for nm in names}
            desper.event_handler(**own)(cls)
        elif names:
            own = {nm: nm for nm in names}
            desper.event_handler(*names)(cls)
        if names:
            # what the class declares, from the spec alone (never read back from __events__): its first ancestor's
            # declarations, extended and overridden by its own
            cls._declared = {**getattr(cls, '_declared', {}), **own}
    n = len(classes)
    world = desper.World()
    model = []          # [instance] in expected order
    removed_pool = []
    made = []
    step_ix = -1

    def maps(p, ev):
        return ev in getattr(type(p), '_declared', {})

    def new(cix):
        p = classes[cix % n]()
        p._log = log
        p.ix = len(made)
        made.append(p)
        return p

    def expect_priority(p, explicit):
        if explicit is not None:
            return explicit
        return p.__dict__.get('priority', type(p).priority)

    def model_insert(p):
        key = p.priority
        pos = len(model)
        for i, o in enumerate(model):
            if key < o.priority:
                pos = i
                break
        model.insert(pos, p)

    def check_state():
        try:
            procs = world.processors
        except Exception as exc:
            viol('processors_raised', exception=repr(exc))
        if [id(p) for p in procs] != [id(p) for p in model]:
            viol('processors_not_in_priority_then_insertion_order', got=[repr(p) for p in procs],
                 expected=[repr(p) for p in model])
        for p in made:
            if hasattr(type(p), '_declared'):
                if world.is_handler(p) != any(p is m for m in model):
                    viol('processor_is_handler_exactly_while_registered', processor=repr(p),
                         is_handler=world.is_handler(p))
        for T in classes:
            g = world.get_processor(T)
            exact = [m for m in model if type(m) is T]
            matches = [m for m in model if isinstance(m, T)]
            ok = (g is exact[0]) if exact else (any(g is m for m in matches) if matches else g is None)
            if not ok:
                viol('get_processor_differs', type=T.__name__, got=repr(g))

    frame = {'open': False, 'removed': set(), 'added': set()}

    def do_add(p, prio):
        mark = len(log)
        want_prio = expect_priority(p, prio)
        old = [m for m in model if type(m) is type(p)]
        before = list(model)
        prio_before = p.priority
        try:
            world.add_processor(p, prio)
        except Exception as exc:
            viol('add_processor_raised', exception=repr(exc))
        if p.priority != want_prio:
            viol('explicit_priority_overrides_default_none_keeps_it', processor=repr(p), given=prio,
                 expected=want_prio, got=p.priority)
        if prio is not None and prio <= 0 and type(p).priority != prio:
            flags['explicit_zero_or_negative_overrides_default'] += 1
        if p.world is not world:
            viol('added_processor_knows_its_world', processor=repr(p), world=repr(p.world))
        owed = []
        same_instance = any(o is p for o in old)
        for o in old:
            model[:] = [m for m in model if m is not o]
            if o is not p:
                removed_pool.append(o)
            flags['replacement'] += 1
            if frame['open']:
                frame['removed'].add(id(o))
            if maps(o, 'on_remove'):
                owed.append(('on_remove', id(o)))
        model_insert(p)
        if frame['open']:
            frame['added'].add(id(p))
        if maps(p, 'on_add'):
            owed.append(('on_add', id(p)))
        if same_instance:
            # the very instance that is registered is added again (with another priority): it is the processor of
            # its type before and after, and takes the place its priority gives it as the latest addition; whether
            # it is told on_remove / on_add on the way is not fixed by the statement
            flags['registered_instance_added_again'] += 1
            if p.priority == prio_before and [id(x) for x in world.processors] == [id(x) for x in before]:
                model[:] = before       # same priority as before: keeping its place among equals is as good
            return
        settle([r for r in log[mark:] if r[0] != 'process'], owed)

    def do_failing_add(p, prio):
        """add_processor whose on_add raises (user code failing).  What such a call leaves behind is not specified;
        whatever it is, the world's own books must agree with each other from then on: processors is adopted as
        the new model (at most one processor per exact type, sorted by priority) and every later step is judged
        against it as usual."""
        p.__dict__['_fail_add'] = True
        mark = len(log)
        try:
            world.add_processor(p, prio)
        except AddFailed:
            pass
        except Exception as exc:
            viol('add_processor_raised', exception=repr(exc))
        else:
            viol('exception_of_on_add_swallowed_by_add_processor', processor=repr(p))
        del log[mark:]
        try:
            procs = list(world.processors)
        except Exception as exc:
            viol('processors_raised', exception=repr(exc))
        types = [type(x) for x in procs]
        if len(set(types)) != len(types):
            viol('two_processors_of_one_exact_type', processors=[repr(x) for x in procs])
        if any(a.priority > b.priority for a, b in zip(procs, procs[1:])):
            viol('processors_not_in_priority_then_insertion_order', got=[repr(x) for x in procs], after='failed add')
        for o in model:
            if not any(o is x for x in procs):
                removed_pool.append(o)
        model[:] = procs
        flags['add_whose_on_add_raised'] += 1

    def check_callbacks(seg, owed):
        got = sorted((k, id(r)) for (k, r, a) in seg)
        if got != sorted(owed):
            viol('processor_lifecycle_callbacks_differ', got=[(k, repr(r)) for (k, r, a) in seg], owed=len(owed))
        for (k, r, a) in seg:
            if k in ('on_add', 'on_remove') and a != ():
                viol('processor_callback_arguments', kind=k, args=repr(a))

    def do_remove(T):
        mark = len(log)
        exact = [m for m in model if type(m) is T]
        matches = [m for m in model if isinstance(m, T)]
        try:
            r = world.remove_processor(T)
        except Exception as exc:
            viol('remove_processor_raised', exception=repr(exc))
        ok = (r is exact[0]) if exact else (any(r is m for m in matches) if matches else r is None)
        if not ok:
            viol('remove_processor_returns_exact_or_a_match', type=T.__name__, got=repr(r))
        owed = []
        if r is not None:
            model[:] = [m for m in model if m is not r]
            removed_pool.append(r)
            flags['remove'] += 1
            if frame['open']:
                frame['removed'].add(id(r))
            if maps(r, 'on_remove'):
                owed.append(('on_remove', id(r)))
        settle([x for x in log[mark:] if x[0] != 'process'], owed)

    state = {'disabled': False, 'pending': []}

    def settle(seg, owed):
        # while dispatching is disabled the lifecycle callbacks of processors are postponed like those of components:
        # nothing runs now, everything owed is delivered - once - when dispatching is enabled again
        if state['disabled']:
            if seg:
                viol('processor_lifecycle_callback_while_dispatching_is_disabled',
                     got=[(k, repr(r)) for (k, r, a) in seg])
            state['pending'].extend(owed)
        else:
            check_callbacks(seg, owed)

    def toggle():
        if not state['disabled']:
            world.dispatch_enabled = False
            state['disabled'] = True
            flags['dispatching_disabled_for_a_while'] += 1
            return
        mark = len(log)
        try:
            world.dispatch_enabled = True
        except PropertyViolation:
            raise
        except Exception as exc:
            viol('enabling_dispatching_raised', exception=repr(exc))
        state['disabled'] = False
        owed, state['pending'] = state['pending'], []
        if owed:
            flags['postponed_processor_callbacks_released'] += 1
        check_callbacks([x for x in log[mark:] if x[0] != 'process'], owed)

    dts = [0, 1, 0.125, Fraction(1, 3)]
    check_state()
    for step_ix, op in enumerate(case['ops']):
        if op[0] == 'add':
            do_add(new(op[1]), op[2])
            flags['add'] += 1
        elif op[0] == 'toggle':
            toggle()
        elif op[0] == 'failadd':
            p_ = new(op[1])
            if maps(p_, 'on_add') and not state['disabled']:
                do_failing_add(p_, op[2])
            else:
                do_add(p_, op[2])
        elif op[0] == 'readd' and case.get('amp'):
            # priority walk: one type is added again and again (each add replaces the previous instance), with
            # priorities fanning out from the given one: ..., p-2, p+2, p-1, p+1 - a long history of used and
            # abandoned priorities around the ones that stay
            base = op[2] if op[2] is not None else 0
            for t in range(case['amp'], 0, -1):
                do_add(new(op[1]), base + (t if t % 2 else -t))
            flags['priority_walk'] += 1
        elif op[0] == 'readd' and op[1] % 2 and model and not frame['open'] and not state['disabled']:
            do_add(model[op[1] // 2 % len(model)], op[2])
        elif op[0] == 'readd':
            if not removed_pool:
                do_add(new(op[1]), op[2])
            else:
                p = removed_pool.pop(op[1] % len(removed_pool))
                flags['readd_removed_instance'] += 1
                do_add(p, op[2])
        elif op[0] == 'remove':
            do_remove(classes[op[1] % n])
        elif op[0] == 'arm':
            # one-shot script: the next time this processor is processed it adds or removes a processor
            if model:
                target = model[op[1] % len(model)]
                if op[2] == 0:
                    target.__dict__['_script'] = (lambda c=op[3], pr=op[4]: (flags.__setitem__(
                        'add_from_inside_process', flags['add_from_inside_process'] + 1), do_add(new(c), pr)))
                else:
                    target.__dict__['_script'] = (lambda c=op[3]: (flags.__setitem__(
                        'remove_from_inside_process', flags['remove_from_inside_process'] + 1),
                        do_remove(classes[c % n])))
        else:
            base = dts[op[1] % len(dts)]
            dt = base if op[1] % 2 else type('DT', (), {'v': base})()     # arbitrary objects are legal dt values
            mark = len(log)
            start = list(model)
            frame.update(open=True, removed=set(), added=set())
            try:
                world.process(dt)
            except PropertyViolation:
                raise
            except Exception as exc:
                viol('process_raised', exception=repr(exc))
            finally:
                frame['open'] = False
            seg = [r for r in log[mark:] if r[0] == 'process']
            if not frame['removed'] and not frame['added']:
                if [(k, id(r)) for (k, r, a) in seg] != [('process', id(m)) for m in start]:
                    viol('process_calls_each_processor_once_in_order', got=[(k, repr(r)) for (k, r, a) in seg],
                         expected=[repr(m) for m in start])
            else:
                # processors were added / removed from inside the frame: those registered at its start and not
                # removed during it run exactly once, in their order; removed or added ones at most once
                flags['frame_with_reentrant_processor_ops'] += 1
                counts = collections.Counter(id(r) for (k, r, a) in seg)
                for m in start:
                    c = counts.get(id(m), 0)
                    if (id(m) in frame['removed'] and c > 1) or (id(m) not in frame['removed'] and c != 1):
                        viol('registered_processor_called_exactly_once_although_the_list_changed_mid_frame',
                             processor=repr(m), calls=c, removed_during_frame=id(m) in frame['removed'],
                             got=[repr(r) for (k, r, a) in seg])
                start_ids = [id(m) for m in start]
                for pid_, c in counts.items():
                    if pid_ not in start_ids and not (pid_ in frame['added'] and c == 1):
                        viol('process_called_a_processor_that_is_not_registered', calls=c)
                sub = [id(r) for (k, r, a) in seg if id(r) in start_ids]
                if sub != [x for x in start_ids if x in sub]:
                    viol('process_order_of_registered_processors', got=[repr(r) for (k, r, a) in seg])
            if any(a is not dt for (k, r, a) in seg):
                viol('process_passes_the_same_dt', dt=repr(dt))
            flags['process'] += 1
            prios = [m.priority for m in model]
            if len(model) >= 3 and len(set(prios)) < len(prios):
                flags['tie_with_three_or_more'] += 1
        check_state()
    if state['disabled']:
        step_ix = len(case['ops'])
        toggle()
        check_state()
    nontrivial = (flags['tie_with_three_or_more'] or flags['explicit_zero_or_negative_overrides_default']
                  or flags['replacement'])
    return {'nontrivial': bool(nontrivial), 'classes': sorted(k for k, v in flags.items() if v),
            'steps': len(case['ops'])}
