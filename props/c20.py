"""C20 - Transform setters notify listeners with the value that was stored (DESIGN 3/C20)."""
import collections

import desper
import desper.math as dmath
from hypothesis import strategies as st

from vlib.core import PropertyViolation
from vlib import worldops

ID = 'C20'
LEVEL = 'exploration'
BUDGET = {'quick': 1500, 'thorough': 6000}
RULE = ('Hypothesis-generated histories: 1-3 Transform2D and 1-3 Transform3D instances built with default or '
        'generated constructor arguments, 1-4 listeners each subscribed to a generated subset of the three '
        'change events (callbacks named like the event or renamed; some listeners belong to a family of classes built with the event_handler decorator (a base declaring one event, two subclasses declaring one more each, only the declared callbacks defined); some are instances of ONE probe class, each declaring its events in an __events__ attribute of its own; a third of the listeners are falsy objects - empty collections) on a generated subset of the transforms, then listeners subscribing / unsubscribing in between, the dispatcher of the transform being cleared (clear(): no listener left, values kept) with listeners registering again afterwards, and assignments (also augmented +=) to '
        'position / rotation / scale with 2D rotations concentrated outside [0, 360) (negative, > 360, exact '
        'multiples of 360, tiny, large, ints and floats) and vectors given as Vec2/Vec3 or plain tuples. Oracle: '
        'after each assignment the property reads back the assigned value (2D rotation: value % 360.), exactly '
        'the listeners subscribed to that event on that transform logged one call whose argument equals - and '
        'for non-numbers is identical to - a read of the property right afterwards; nobody else logged '
        'anything; constructor values read back the same way; other instances are unaffected. '
        'In ~19% of the cases a subscription is followed by listener churn: 64-150 short-lived listeners come and go on that transform (a window of eight stays alive). '
        ''
        '2D rotations include angles whose reduction modulo 360 is not a fixed point in floating point (-1e-15, -5e-324). '
        'Non-trivial = a '
        '2D rotation outside [0, 360) assigned with >= 1 rotation listener, or >= 2 transforms sharing a '
        'listener. Distinct = sha1 of canonical JSON.')
ASSUMPTIONS = [
    'NaN/inf rotations are not generated; membership of the stored rotation in [0, 360) is not asserted (for '
    'tiny negative floats x % 360.0 rounds to 360.0)',
    'listeners read the property from inside their callback; a reactive listener assigns ANOTHER property of '
    'the same transform there (at most one nested assignment per operation)',
]
FINDINGS = {}
EVENTS = ['on_position_change', 'on_rotation_change', 'on_scale_change']
PROPS = ['position', 'rotation', 'scale']
ROT2 = [370, -10, 720, 360, 0, -0.0, 1e-9, -1e-9, 1000000.5, 359.99999, 360.0000001, 45, 12.5, -725, 3600, 90.0,
        # angles whose reduction modulo 360 is not a fixed point of the reduction in floating point
        -1e-15, -5e-324, -7.016709298534876e-15, 360 - 1e-14, 720 - 1e-13]
COMP = [0, 1, -2, 0.5, 3.25, -7.75, 100, 1e-3]


def decode_op(t):
    sel, p = t
    if sel == 10:
        # the transform's dispatcher is cleared (every listener gone, the stored values stay) - listeners come back later
        return [p % 6, 'clear', 'listener', p // 6]
    if sel >= 8:
        # a listener subscribes to / unsubscribes from a transform in the middle of the history
        return [p % 6, 'sub' if sel == 8 else 'unsub', 'listener', p // 6]
    return [p % 6, PROPS[sel % 3], 'aug' if sel >= 6 else ('tuple' if sel >= 3 else 'vec'), p // 6]


def strategy():
    op = st.tuples(st.integers(0, 10), worldops.packed(6 * 16 ** 3)).map(decode_op)
    return st.fixed_dictionaries({
        'n2': st.integers(1, 3), 'n3': st.integers(1, 3),
        'ctor': st.lists(st.integers(0, 16 ** 3 * 2 - 1), min_size=6, max_size=6),
        'listeners': st.lists(worldops.packed(7 * 64 * 3 * 2).map(
            lambda p: {'events': p % 7 + 1, 'on': p // 7 % 64 or 1, 'reactive': p // 448 % 3 == 2,
                       'renamed': p // 1344 == 1}),
                              min_size=1, max_size=4),
        'ops': worldops.chunked(op, 30),
        # scale: 0, or the number of short-lived listeners a "sub" operation lets come and go on the transform
        'amp': worldops.size_amp(none=26)})


def viol(clause, **d):
    raise PropertyViolation(clause, d)


def vec(dim, p):
    comps = [COMP[(p >> (3 * i)) & 7] for i in range(dim)]
    return comps


def run_case(case):
    facts = collections.Counter()
    log = []
    current = {'t': None, 'prop': None, 'nested': None, 'dim': 2}

    def make_probe_class():
        # ONE class for several listeners: every callback exists, each INSTANCE declares the events it wants in an
        # __events__ attribute of its own (a probe built with the event names it should observe)
        ns = {}
        for e in EVENTS:
            def cb(self, *a, _e=e):
                t = current['t']
                log.append((self.ix, _e, a, getattr(t, _e[3:-7]) if t is not None else None))
            ns[e] = cb

        def __init__(self, ix, evs):
            self.ix = ix
            self.__events__ = {e: e for e in evs}
        ns['__init__'] = __init__
        return type('Probe', (), ns)
    probe_class = make_probe_class()

    def make_family():
        # listener classes built with the library's decorator, as game code does: a base declaring one event and two
        # subclasses each declaring one more; every class defines only the callbacks it declares
        def cb_for(e):
            def cb(self, *a, _e=e):
                t = current['t']
                log.append((self.ix, _e, a, getattr(t, _e[3:-7]) if t is not None else None))
            return cb
        base = desper.event_handler(EVENTS[0])(type('FamBase', (), {EVENTS[0]: cb_for(EVENTS[0])}))
        sub1 = desper.event_handler(EVENTS[1])(type('FamRot', (base,), {EVENTS[1]: cb_for(EVENTS[1])}))
        sub2 = desper.event_handler(EVENTS[2])(type('FamScale', (base,), {EVENTS[2]: cb_for(EVENTS[2])}))
        return [(base, {EVENTS[0]}), (sub1, {EVENTS[0], EVENTS[1]}), (sub2, {EVENTS[0], EVENTS[2]})]
    family = make_family()

    def make_listener(ix, mask, reactive=False, renamed=False):
        evs = [e for i, e in enumerate(EVENTS) if mask >> i & 1]
        if not reactive and not renamed and (mask + ix) % 5 == 2:
            cls, declared_evs = family[mask % 3]
            inst = cls()
            inst.ix = ix
            facts['listener_of_a_decorated_class_family'] += 1
            return inst, set(declared_evs)
        if not reactive and not renamed and (mask + ix) % 3 == 1:
            facts['listener_declaring_its_events_on_the_instance'] += 1
            return probe_class(ix, evs), set(evs)
        # renamed: event_handler(on_position_change='moved')-style mapping, the callback is not named like the event
        name = (lambda e: 'cb_' + e[3:]) if renamed else (lambda e: e)
        ns = {'__events__': {e: name(e) for e in evs}}
        for e in evs:
            def cb(self, *a, _e=e):
                # what does a read of the property return while the listeners are being told?
                t = current['t']
                seen = getattr(t, _e[3:-7]) if t is not None else None
                log.append((ix, _e, a, seen))
                if reactive and t is not None and current['nested'] is None and _e == 'on_%s_change' % current['prop']:
                    # a listener that assigns ANOTHER property of the same transform from inside its callback
                    other = PROPS[(PROPS.index(current['prop']) + 1) % 3]
                    dim = current['dim']
                    if other == 'rotation' and dim == 2:
                        val = 725
                    else:
                        val = (dmath.Vec2 if dim == 2 else dmath.Vec3)(*([9, 8, 7][:dim]))
                    current['nested'] = (other, val)
                    setattr(t, other, val)
            ns[name(e)] = cb
        if (mask + ix) % 3 == 0:
            # a listener that is an (empty) collection of what it was told - a falsy object, and a listener all the same
            ns['__len__'] = lambda self: 0
            facts['falsy_listener'] += 1
        return type('Lst%d' % ix, (), ns)(), set(evs)

    transforms = []
    expected = []           # per transform: dict prop -> expected read value (None: unknown)
    for i in range(case['n2'] + case['n3']):
        dim = 2 if i < case['n2'] else 3
        c = case['ctor'][i]
        if c % 2 == 0:
            t = desper.Transform2D() if dim == 2 else desper.Transform3D()
            exp = {'position': (0,) * dim, 'rotation': 0 if dim == 2 else (0, 0, 0), 'scale': (1,) * dim}
            facts['default_constructed'] += 1
        else:
            pos, scl = vec(dim, c >> 1), vec(dim, c >> 4)
            if dim == 2:
                rot = ROT2[(c >> 7) % len(ROT2)]
                t = desper.Transform2D(tuple(pos), rot, dmath.Vec2(*scl))
                exp = {'position': tuple(pos), 'rotation': rot % 360., 'scale': tuple(scl)}
            else:
                rot = vec(3, c >> 5)
                t = desper.Transform3D(dmath.Vec3(*pos), tuple(rot), tuple(scl))
                exp = {'position': tuple(pos), 'rotation': tuple(rot), 'scale': tuple(scl)}
        transforms.append((t, dim))
        expected.append(exp)
    listeners = []
    listener_events = []
    subs = collections.defaultdict(set)      # (transform ix, event) -> listener ixs
    for li, spec in enumerate(case['listeners']):
        lst, evs = make_listener(li, spec['events'], spec.get('reactive', False), spec.get('renamed', False))
        listeners.append(lst)
        listener_events.append(evs)
        if spec.get('renamed'):
            facts['listener_with_renamed_callbacks'] += 1
        on = [ti for ti in range(len(transforms)) if spec['on'] >> ti & 1] or [li % len(transforms)]
        for ti in on:
            try:
                transforms[ti][0].add_handler(lst)
            except Exception as exc:
                viol('add_handler_raised', listener=type(lst).__name__, exception=repr(exc))
            for e in evs:
                subs[(ti, e)].add(li)
        if len(on) >= 2:
            facts['listener_shared_by_transforms'] += 1

    def same_value(a, b):
        if isinstance(b, tuple) and not isinstance(a, (int, float)):
            return tuple(a) == tuple(b)
        return a == b

    def check_reads(where):
        for ti, (t, dim) in enumerate(transforms):
            for prop in PROPS:
                got = getattr(t, prop)
                want = expected[ti][prop]
                if not same_value(got, want):
                    viol('property_reads_back_the_stored_value', where=where, transform=ti, prop=prop,
                         got=repr(got), expected=repr(want))

    if log:
        viol('callbacks_during_construction', log=repr(log))
    check_reads('after construction')
    for step, (tsel, prop, how, p) in enumerate(case['ops']):
        ti = tsel % len(transforms)
        t, dim = transforms[ti]
        del log[:]
        if prop == 'clear':
            current['t'] = None
            try:
                t.clear()
            except Exception as exc:
                viol('clear_raised', exception=repr(exc))
            for e in EVENTS:
                subs[(ti, e)].clear()
            if log:
                viol('callbacks_during_subscription', log=repr(log), during='clear')
            check_reads('after clear() of the dispatcher')
            # every second listener that is alive comes back at once (the others may come back through later ops)
            alive = [i for i, l in enumerate(listeners) if l is not None]
            for i in alive[p % 2::2]:
                try:
                    t.add_handler(listeners[i])
                except Exception as exc:
                    viol('add_handler_raised', listener=type(listeners[i]).__name__, exception=repr(exc))
                for e in listener_events[i]:
                    subs[(ti, e)].add(i)
            facts['transform_cleared_and_listeners_registered_again'] += 1
            continue
        if prop in ('sub', 'unsub'):
            alive = [i for i, l in enumerate(listeners) if l is not None]
            li = alive[p % len(alive)]
            current['t'] = None
            try:
                (t.add_handler if prop == 'sub' else t.remove_handler)(listeners[li])
            except Exception as exc:
                viol('subscribing_or_unsubscribing_a_listener_raised', exception=repr(exc))
            for e in listener_events[li]:
                (subs[(ti, e)].add if prop == 'sub' else subs[(ti, e)].discard)(li)
            if log:
                viol('callbacks_during_subscription', log=repr(log))
            facts['listener_%sscribed_mid_history' % prop] += 1
            if case.get('amp') and prop == 'sub':
                # listener churn: short-lived listeners subscribe to this transform and go out of scope again
                # (nobody removes them), a sliding window of eight stays alive and keeps being notified
                window = []
                for k in range(case['amp']):
                    nli = len(listeners)
                    lst, evs = make_listener(nli, 1 + (k + p) % 7, False, k % 3 == 0)
                    listeners.append(lst)
                    listener_events.append(evs)
                    try:
                        t.add_handler(lst)
                    except Exception as exc:
                        viol('add_handler_raised', listener=type(lst).__name__, exception=repr(exc))
                    for e in evs:
                        subs[(ti, e)].add(nli)
                    window.append(nli)
                    lst = None
                    if len(window) > 8:
                        gone = window.pop(0)
                        for e in listener_events[gone]:
                            subs[(ti, e)].discard(gone)
                        listeners[gone] = None          # the last reference: the listener is gone
                facts['listener_churn'] += 1
            continue
        current['t'], current['prop'], current['nested'], current['dim'] = t, prop, None, dim
        if prop == 'rotation' and dim == 2:
            value = ROT2[p % len(ROT2)]
            if how == 'aug':
                old = t.rotation
                t.rotation += value
                stored = (old + value) % 360.
            else:
                t.rotation = value
                stored = value % 360.
            identical = None
            if not (0 <= value < 360) and subs[(ti, 'on_rotation_change')]:
                facts['rotation_outside_range_with_listener'] += 1
        else:
            comps = vec(dim, p)
            V = dmath.Vec2 if dim == 2 else dmath.Vec3
            if how == 'aug':
                old = getattr(t, prop)
                setattr(t, prop, V(*old) + V(*comps))
                stored = tuple(V(*old) + V(*comps))
                identical = None
            else:
                value = V(*comps) if how == 'vec' else tuple(comps)
                setattr(t, prop, value)
                stored = tuple(comps)
                identical = value
        expected[ti][prop] = stored
        read = getattr(t, prop)
        if not same_value(read, stored):
            viol('assignment_stores_the_value', step=step, transform=ti, prop=prop, read=repr(read),
                 expected=repr(stored))
        if identical is not None and read is not identical:
            viol('assignment_stores_the_very_object', step=step, transform=ti, prop=prop)
        event = 'on_%s_change' % prop
        nested = current['nested']
        current['t'] = None
        nested_log = []
        if nested is not None:
            # one listener assigned another property of this transform from inside its callback: that assignment
            # owes its own notifications; the outer ones are still owed to every listener of the outer event
            facts['assignment_from_inside_a_callback'] += 1
            nprop, nval = nested
            nevent = 'on_%s_change' % nprop
            nested_log = [r for r in log if r[1] == nevent]
            log[:] = [r for r in log if r[1] != nevent]
            nstored = nval % 360. if (nprop == 'rotation' and dim == 2) else tuple(nval)
            expected[ti][nprop] = nstored
            nread = getattr(t, nprop)
            if not same_value(nread, nstored):
                viol('assignment_stores_the_value', step=step, transform=ti, prop=nprop, nested=True, read=repr(nread))
            if sorted(li for (li, e, a, seen) in nested_log) != sorted(subs[(ti, nevent)]):
                viol('exactly_the_listeners_of_that_event_on_that_transform_are_notified_once', step=step,
                     transform=ti, event=nevent, nested=True, got=[(li, e) for (li, e, a, seen) in nested_log],
                     expected=sorted(subs[(ti, nevent)]))
            for (li, e, a, seen) in nested_log:
                ok = (a[0] == nread) if isinstance(nread, (int, float)) else (a[0] is nread)
                if len(a) != 1 or not ok:
                    viol('callback_carries_the_value_a_read_returns', step=step, transform=ti, prop=nprop,
                         nested=True, got=repr(a))
        want = sorted(subs[(ti, event)])
        got = sorted(li for (li, e, a, seen) in log)
        if got != want or any(e != event for (_li, e, _a, _s) in log):
            viol('exactly_the_listeners_of_that_event_on_that_transform_are_notified_once', step=step,
                 transform=ti, event=event, got=[(li, e) for (li, e, a, seen) in log], expected=want,
                 assignment_from_inside_a_callback=nested is not None)
        for (li, e, a, seen) in log:
            if not (seen is read or (isinstance(read, (int, float)) and seen == read)):
                viol('value_is_stored_before_the_listeners_are_notified', step=step, transform=ti, prop=prop,
                     read_inside_callback=repr(seen), read_afterwards=repr(read))
            if len(a) != 1:
                viol('callback_carries_one_argument', args=repr(a))
            arg = a[0]
            if isinstance(read, (int, float)):
                if not (isinstance(arg, (int, float)) and arg == read):
                    viol('callback_carries_the_value_a_read_returns', step=step, transform=ti, prop=prop,
                         got=repr(arg), read=repr(read))
            elif arg is not read:
                viol('callback_carries_the_value_a_read_returns', step=step, transform=ti, prop=prop,
                     got=repr(arg), read=repr(read))
        check_reads('after step %d' % step)
    nontrivial = facts['rotation_outside_range_with_listener'] or facts['listener_shared_by_transforms']
    return {'nontrivial': bool(nontrivial), 'classes': sorted(k for k, v in facts.items() if v),
            'steps': len(case['ops'])}
