"""C14 - SimpleLoop feeds exact time deltas and stops cleanly on Quit (DESIGN 3/C14).

Level: fault enumeration.  Every generated base script (clock readings, worlds, restarts) is executed fault-free
and then once for EVERY single fault position (iteration, processor, action); generated multi-fault scripts are
executed in addition.
"""
import collections

import desper
from hypothesis import strategies as st

from vlib.core import PropertyViolation
from vlib import worldops

ID = 'C14'
LEVEL = 'fault_enumeration'
BUDGET = {'quick': 400, 'thorough': 1500}
RULE = ('Hypothesis-generated base scripts: a non-decreasing sequence of clock readings (repeats allowed; floats '
        'that are multiples of 1/8, or floats ticking in tenths from 0.1 on, or integers beyond 2**53 as a nanosecond clock yields, or exact rationals), 1-3 world handles each holding 1-4 recording processors of distinct priorities and an on_quit '
        'listener, 1-3 start() calls of the same loop object (each ended by the clock raising Quit after its '
        'iteration budget), plus 0-2 generated faults. Each base script is executed as generated and then once '
        'for EVERY (iteration, processor position, action) with action in {raise Quit, quit_loop(world), '
        'quit_loop() through desper.default_loop, quit_loop(world) whose on_quit listener raises, switch(), raise SwitchWorld (plain, clear_next, clear_current; '
        'targets never loaded before, cached or cleared), raise RuntimeError / KeyboardInterrupt / SystemExit, switch() whose on_switch_in '
        'listener in the entered world raises RuntimeError / Quit while the loop completes the switch}. Oracle = '
        'model of the clock: dt is 0 for the first iteration after each start() and the exact difference of '
        'consecutive readings otherwise (also across switches), same dt for all processors of a frame, '
        'processors after the faulting one do not run, Quit/quit_loop make start() return with running False and '
        'current world/handle unchanged and exactly one on_quit for quit_loop, other exceptions propagate as the '
        'same object, the next start() begins with dt 0. evaluations = base scripts, implementation_executions '
        '= runs incl. fault positions. '
        'In ~8% of the cases the first start() runs 70-520 iterations (faults then at sampled iterations around the powers of two). '
        ''
        'In a quarter of the cases the loop under test is not desper.default_loop (that one holds a bystander world) and every other world is a falsy World subclass. '
        'Non-trivial = a base script with >= 3 iterations and >= 2 distinct '
        'positive deltas and >= 2 processors in some world, or a restart. Distinct = sha1 of canonical JSON.')
ASSUMPTIONS = [
    'float clock readings are multiples of 1/8 below 2**10 (exact differences) or, clock kind 3, multiples of 0.1 '
    'started at 0.1 (the expected delta is then the float subtraction of the two readings, i.e. their correctly '
    'rounded difference); integer and Fraction readings are compared exactly: the loop must not convert them',
    'quit_loop is given the current world or nothing (a left, disabled world would legitimately postpone '
    'on_quit)',
    'clear flags only through raise SwitchWorld (their event semantics are C13\'s subject)',
    'Loop.running after a propagated non-Quit exception is not specified by the property and not checked',
]
FINDINGS = {}
ACTIONS = ['quit', 'quit_loop_w', 'quit_loop_default', 'switch', 'raise_switch', 'error', 'raise_switch_clear_next',
           'raise_switch_clear_current',
           # switch(), and the on_switch_in listener of the entered world raises while the loop completes the switch
           'switch_in_listener_raises', 'switch_in_listener_quits',
           # "any other exception": also the ones that do not derive from Exception
           'error_keyboard_interrupt', 'error_system_exit',
           # quit_loop(world), and the on_quit listener of that world raises: "any other exception propagates"
           'quit_loop_listener_raises']


class Boom(RuntimeError):
    pass


def decode_fault(p):
    return [p % 16, p // 16 % 4, p // 64 % 13, p // 832 % 3]


def strategy():
    return st.fixed_dictionaries({
        'worlds': st.lists(st.integers(1, 4), min_size=1, max_size=3),
        'segments': st.lists(st.integers(1, 5), min_size=1, max_size=3),
        'gaps': st.lists(st.integers(0, 16).map(lambda k: k / 8), min_size=15, max_size=15),
        'start': st.integers(0, 80).map(lambda k: k / 8),
        # what the time function returns: 0 floats (multiples of 1/8), 1 integers beyond 2**53 (nanosecond
        # clocks), 2 exact rationals - the deltas are the exact differences in each case
        'clock': st.integers(0, 5).map(lambda k: (0, 1, 2, 3, 3, 3)[k]),
        # foreign: the loop under test is not desper.default_loop (that one holds a bystander world), and every
        # other world handle loads a World subclass whose instances are falsy
        'foreign': st.integers(0, 3).map(lambda k: int(k == 3)),
        'faults': st.lists(worldops.packed(16 * 4 * 13 * 3).map(decode_fault), max_size=2),
        # scale: 0, or the number of iterations of the first start() (the clock readings are continued by
        # cycling through the generated gaps); faults are then enumerated at sampled iterations only
        'amp': worldops.size_amp(none=60, sizes=(70, 130, 260, 300, 520))})


class Proc(desper.Processor):
    def __init__(self, run, wix, pos):
        self.run, self.wix, self.pos = run, wix, pos

    def process(self, dt):
        self.run.on_process(self, dt)


PROC_CLASSES = [type('Proc%d' % i, (Proc,), {}) for i in range(4)]     # a world holds one processor per type


@desper.event_handler('on_quit', 'on_switch_in')
class QuitListener:
    def __init__(self, run, wix):
        self.run, self.wix = run, wix

    def on_switch_in(self, *a):
        armed = self.run.arm_in
        if armed is not None and armed[1] == self.wix:
            self.run.arm_in = None
            self.run.flags['switch_in_listener_raised'] += 1
            if armed[0] == 'quit':
                raise desper.Quit()
            self.run.raised = Boom('injected while entering')
            raise self.run.raised

    def on_quit(self, *a):
        self.run.quit_calls[self.wix] += 1
        if a:
            self.run.viol('on_quit_got_arguments', args=repr(a))
        if self.run.arm_quit == self.wix:
            self.run.arm_quit = None
            self.run.flags['on_quit_listener_raised'] += 1
            self.run.raised = Boom('injected while saving on quit')
            raise self.run.raised


class EmptyLookingWorld(desper.World):
    """a World subclass whose instances are falsy (think __len__ = number of living things)"""

    def __bool__(self):
        return False


class WorldH(desper.Handle):
    def __init__(self, run, wix, nprocs):
        self.run, self.wix, self.nprocs = run, wix, nprocs

    def load(self):
        w = EmptyLookingWorld() if (self.run.case.get('foreign') and self.wix % 2 == 0) else desper.World()
        # priorities distinct; added in scrambled order so that the order is the priority's doing
        order = list(range(self.nprocs))
        for pos in order[::-1]:
            w.add_processor(PROC_CLASSES[pos](self.run, self.wix, pos), priority=pos * 2 - 3)
        w.create_entity(QuitListener(self.run, self.wix))
        return w


class Execution:
    def __init__(self, case, faults):
        self.case = case
        self.faults = {(f[0], f[1]): f for f in faults}
        self.fault_list = faults
        self.readings = []
        kind = case.get('clock', 0)
        if kind == 1:
            conv = lambda x: int(x * 8)
            t = 2 ** 53 + conv(case['start'])
        elif kind == 2:
            from fractions import Fraction
            conv = lambda x: Fraction(int(x * 8), 3)
            t = conv(case['start'])
        elif kind == 3:
            # a float clock ticking in tenths, started away from zero: neither readings nor differences are exact
            # binary fractions; the delta is the difference as the float type itself computes it (IEEE subtraction,
            # correctly rounded), which is what "the difference between consecutive readings" means for floats
            conv = lambda x: x * 0.8
            t = 0.1 + conv(case['start'])
        else:
            conv = lambda x: x
            t = case['start']
        gaps = list(case['gaps'])
        if case.get('amp'):
            gaps = (gaps * (case['amp'] // len(gaps) + 2))[:case['amp'] + 12]
        for g in gaps:
            t += conv(g)
            self.readings.append(t)
        self.g = -1                 # global iteration index
        self.iter_in_segment = 0
        self.budget = 0
        self.clock_calls = 0
        self.frame = []             # (wix, pos, dt) of the current iteration
        self.frames = []            # per iteration: dict(world, calls, dt_expected)
        self.quit_calls = collections.Counter()
        self.flags = collections.Counter()
        self.raised = None
        self.expect_on_quit = collections.Counter()
        self.arm_quit = None
        self.fired = set()
        self.arm_in = None

    def viol(self, clause, **d):
        d['faults'] = self.fault_list
        d['iteration'] = self.g
        raise PropertyViolation(clause, d)

    def clock(self):
        self.clock_calls += 1
        self.close_frame()
        if self.iter_in_segment >= self.budget or self.g + 1 >= len(self.readings):
            raise desper.Quit()
        self.g += 1
        self.iter_in_segment += 1
        self.first_of_start = self.iter_in_segment == 1
        self.frame = []
        self.frame_open = True
        self.frame_world = self.cur
        self.frame_fault_pos = None
        return self.readings[self.g]

    def close_frame(self):
        if not getattr(self, 'frame_open', False):
            return
        self.frame_open = False
        g = self.g
        want_dt = 0 if self.first_of_start else self.readings[g] - self.readings[g - 1]
        wix = self.frame_world
        n = self.case['worlds'][wix]
        upto = n if self.frame_fault_pos is None else self.frame_fault_pos + 1
        want = [(wix, pos) for pos in range(upto)]
        got = [(w, p) for (w, p, _dt) in self.frame]
        if got != want:
            self.viol('iteration_runs_the_current_worlds_processors_once_in_order_up_to_the_fault',
                      got=got, expected=want)
        for (_w, _p, dt) in self.frame:
            if dt != want_dt or (want_dt == 0 and self.first_of_start and dt != 0):
                self.viol('dt_is_zero_after_start_and_the_exact_reading_difference_otherwise', got=dt,
                          expected=want_dt, first_iteration_after_start=self.first_of_start,
                          readings=self.readings[max(0, g - 1):g + 1])
        if not self.first_of_start and want_dt > 0:
            self.deltas.add(want_dt)

    def on_process(self, proc, dt):
        if not getattr(self, 'frame_open', False):
            self.viol('processor_ran_outside_an_iteration')
        if proc.world is not self.instances[self.cur]:
            self.viol('process_called_on_a_world_that_is_not_current', world=proc.wix, current=self.cur)
        self.frame.append((proc.wix, proc.pos, dt))
        f = self.faults.get((self.g, proc.pos))
        if f is None or (self.g, proc.pos) in self.fired:
            return
        self.fired.add((self.g, proc.pos))
        action = ACTIONS[f[2]]
        self.frame_fault_pos = proc.pos
        self.flags['fault:' + action] += 1
        if proc.pos < self.case['worlds'][proc.wix] - 1:
            self.flags['fault_not_in_last_processor'] += 1
        target = f[3] % len(self.handles)
        if action == 'quit':
            self.end_reason = 'quit'
            raise desper.Quit()
        if action == 'quit_loop_w':
            self.end_reason = 'quit'
            self.expect_on_quit[self.cur] += 1
            desper.quit_loop(proc.world)
        if action == 'quit_loop_listener_raises':
            self.end_reason = 'error'
            self.expect_on_quit[self.cur] += 1
            self.arm_quit = self.cur
            desper.quit_loop(proc.world)
        if action == 'quit_loop_default':
            self.end_reason = 'quit'
            # no world given: on_quit goes to the current world of desper.default_loop (in "foreign" cases that is
            # another loop with a bystander world)
            self.expect_on_quit[99 if self.case.get('foreign') else self.cur] += 1
            desper.quit_loop()
        if action == 'error':
            self.end_reason = 'error'
            self.raised = Boom('injected')
            raise self.raised
        if action in ('error_keyboard_interrupt', 'error_system_exit'):
            self.end_reason = 'error'
            self.raised = KeyboardInterrupt() if action == 'error_keyboard_interrupt' else SystemExit(3)
            raise self.raised
        # world switches: the target is NOT loaded by the harness (a never loaded or cleared handle is loaded by
        # the library on the way); which instance runs is learnt when the loop has switched
        self.next_cur = target
        if action in ('switch_in_listener_raises', 'switch_in_listener_quits'):
            # the exception leaves start() (Quit: start returns) while the loop is completing the switch; which
            # world is current afterwards is read from the loop - what matters is that the NEXT start() processes
            # that current world, with dt = 0 first
            self.arm_in = ('quit' if action.endswith('quits') else 'error', target)
            self.end_reason = 'quit' if action.endswith('quits') else 'error'
            desper.switch(self.handles[target], from_world=proc.world if (f[0] % 2 or self.case.get('foreign')) else None)
        if action == 'switch':
            desper.switch(self.handles[target], from_world=proc.world if (f[0] % 2 or self.case.get('foreign')) else None)
        raise desper.SwitchWorld(self.handles[target], clear_next=(action == 'raise_switch_clear_next'),
                                 clear_current=(action == 'raise_switch_clear_current'))

    def run(self):
        case = self.case
        self.loop = desper.SimpleLoop(self.clock)
        old_default = desper.default_loop
        desper.default_loop = self.loop
        if case.get('foreign'):
            # the loop under test is NOT desper.default_loop: that one belongs to somebody else and holds a
            # bystander world - quit_loop(world) is about the given world, not about the default loop's
            other = desper.SimpleLoop(lambda: 0)
            bystander = desper.Handle()
            bw = desper.World()
            bw.create_entity(QuitListener(self, 99))
            bystander.load = lambda: bw
            other.switch(bystander)
            desper.default_loop = other
            self.flags['foreign_default_loop'] += 1
        try:
            self.handles = [WorldH(self, i, n) for i, n in enumerate(case['worlds'])]
            self.instances = {0: self.handles[0]()}
            self.cur = 0
            self.next_cur = None
            self.deltas = set()
            self.loop.switch(self.handles[0])
            for si, budget in enumerate(case['segments']):
                if si == 0 and case.get('amp'):
                    budget = case['amp']
                self.budget = budget
                self.iter_in_segment = 0
                self.end_reason = 'clock'
                self.raised = None
                calls_before = self.clock_calls
                iters_before = self.g
                orig_switch = self.loop.switch

                def tracking_switch(handle, *a, **k):
                    try:
                        r = orig_switch(handle, *a, **k)
                    except BaseException:
                        # a listener of the entered world raised: the loop tells which world is current now
                        h = self.loop.current_world_handle
                        self.cur = next(i for i, x in enumerate(self.handles) if x is h)
                        self.next_cur = None
                        self.instances[self.cur] = self.loop.current_world
                        raise
                    if self.next_cur is not None:
                        self.cur, self.next_cur = self.next_cur, None
                    self.instances[self.cur] = self.loop.current_world
                    return r
                self.loop.switch = tracking_switch
                try:
                    self.loop.start()
                    outcome = None
                except PropertyViolation:
                    raise
                except BaseException as exc:
                    outcome = exc
                finally:
                    del self.loop.switch
                self.close_frame()
                if self.end_reason == 'error':
                    if outcome is not self.raised:
                        self.viol('other_exceptions_propagate_to_the_caller_unchanged', got=repr(outcome))
                    self.flags['exception_propagated'] += 1
                else:
                    if outcome is not None:
                        self.viol('quit_must_make_start_return_normally', got=repr(outcome), reason=self.end_reason)
                    if self.loop.running:
                        self.viol('running_is_false_after_quit')
                if self.loop.current_world is not self.instances[self.cur] or \
                        self.loop.current_world_handle is not self.handles[self.cur]:
                    self.viol('current_world_and_handle_unchanged_when_start_returns', expected_world=self.cur)
                for w in list(range(len(self.handles))) + [99]:
                    if self.quit_calls[w] != self.expect_on_quit[w]:
                        self.viol('quit_loop_delivers_on_quit_exactly_once_before_start_returns', world=w,
                                  got=self.quit_calls[w], expected=self.expect_on_quit[w])
                iters = self.g - iters_before
                reads = self.clock_calls - calls_before
                want_reads = iters + (1 if self.end_reason == 'clock' else 0)
                if reads != want_reads:
                    self.viol('time_function_read_once_per_iteration', reads=reads, iterations=iters,
                              ended_by=self.end_reason)
                if si > 0:
                    self.flags['restart'] += 1
                if self.g + 1 >= len(self.readings):
                    break
        finally:
            desper.default_loop = old_default
        return self


def run_case(case):
    base_faults = [list(f) for f in case['faults']]
    base = Execution(case, []).run()
    execs = 1
    if base_faults:
        Execution(case, base_faults).run()
        execs += 1
    iterations = base.g + 1
    maxprocs = max(case['worlds'])
    frames = range(iterations)
    if case.get('amp'):
        frames = sorted({g for g in ([0, 1, iterations - 2, iterations - 1] + [b + d for b in (64, 128, 256, 512)
                                                                            for d in (-1, 0, 1, 2)])
                         if 0 <= g < iterations})
    amp = bool(case.get('amp'))
    for g in frames:
        for pos in (range(maxprocs) if not amp else (0,)):
            for a in (range(len(ACTIONS)) if not amp else (0, 4, 5, 10)):  # long runs: quit / raise switch / errors
                for target in (range(len(case['worlds'])) if not amp else (len(case['worlds']) - 1,)) \
                        if 'switch' in ACTIONS[a] else (0,):
                    Execution(case, [[g, pos, a, target]]).run()
                    execs += 1
    nontrivial = (iterations >= 3 and len(base.deltas) >= 2 and maxprocs >= 2) or base.flags['restart']
    classes = []
    if base.flags['restart']:
        classes.append('restart')
    if len(case['worlds']) > 1:
        classes.append('several_worlds')
    if len(base.deltas) >= 2:
        classes.append('two_distinct_positive_deltas')
    if base_faults:
        classes.append('generated_multi_fault_script')
    if amp:
        classes.append('long_run')
    return {'nontrivial': bool(nontrivial), 'classes': classes, 'executions': execs, 'steps': iterations}
