"""C03 - An enabled dispatcher delivers each event once to each listener (DESIGN 3/C03)."""
import collections

import desper
from hypothesis import strategies as st

from vlib.core import PropertyViolation
from vlib import worldops

ID = 'C03'
LEVEL = 'exploration'
BUDGET = {'quick': 1500, 'thorough': 6000}
RULE = ('Exceptions raised by callbacks are subclasses of built-in exception types in turn (KeyError, LookupError, AttributeError, StopIteration, RuntimeError). '
        'Hypothesis-generated (a) handler class hierarchies (2-6 classes decorated with event_handler(*names, '
        '**mappings) over 5 event names and 6 extra method names, subclasses extending/overriding, undecorated '
        'and empty-decorated intermediates, plain mixins) and (b) histories over a plain EventDispatcher: '
        'add_handler (also repeated), remove_handler (also of strangers), dispatch(name, *args, **kwargs) with '
        'generated positional/keyword arguments, dispatch of unknown names, and one-shot scripts armed on '
        'handlers that add/remove handlers or dispatch re-entrantly (depth <= 3) from inside callbacks, and '
        'disable; dispatch; enable cycles during whose release one callback raises (afterwards dispatching is enabled '
        'again and everything must work as before). Oracle: '
        '__events__ of every class = independent fold over its parent (bases re-read after every decoration: '
        'unchanged); per dispatch frame every handler registered at frame start and not removed during it is '
        'called exactly once on the mapped method with identical args/kwargs, removed/added during the frame 0 '
        'or 1 times, nobody else; is_handler == model after every step. '
        'In ~15% of the cases every handler exists in 64-150 copies that are registered / removed ONE AT A TIME with a dispatch after each (the listener count passes through every value). '
        ''
        'Keyword names come from a pool of plausible parameter names (listener, handler, method, args, kwargs, ...). '
        'Non-trivial = a dispatch with >= 2 '
        'listeners and non-empty args or kwargs after at least one re-registration or removal. Distinct = sha1 '
        'of canonical JSON.')
ASSUMPTIONS = [
    'handlers are told apart by identity: value-equal and unhashable handlers are generated and are distinct '
    'handlers (see DESIGN 7.2 R22)',
    'a handler added or removed while a dispatch of that event is iterating may or may not be reached by it',
    'single inheritance of mappings (one base lineage carries __events__; plain mixins may be mixed in)',
    'keyword arguments never use the names self / event_name (they collide with the API\'s own parameters)',
    'dispatching is enabled except inside the disable; dispatch; enable cycle of the "cycle" operation, whose '
    'release may be cut short by a raising callback (what that release owes is C04\'s subject)',
]
FINDINGS = {}

EVENTS = ['e0', 'e1', 'e2', 'e3', 'e4']
METHODS = ['m0', 'm1', 'm2', 'm3', 'm4', 'm5']
UNKNOWN = ['zz', 'on_nothing']
KWNAMES = ['k0', 'k1', 'k2', 'listener', 'handler', 'method', 'args', 'kwargs', 'name', 'event', 'callback', 'cls',
           'dispatcher', 'handler_ref', 'method_ref', 'value', 'dt']
ARG_VALUES = [None, 0, '', [], {}, False]


class Mixin:
    pass


def _make_method(name, defcls=None):
    def method(self, *args, **kwargs):
        self._run.on_call(self, name, args, kwargs, defcls)
    method.__name__ = name
    return method


class Rec:
    _run = None
    ix = -1
    truth = True
    eqmode = 0      # 0: identity; 1: value equality (all such handlers are equal, one hash); 2: equal and unhashable

    def __eq__(self, other):
        # handlers with value semantics (think of a frozen dataclass component): equal-but-distinct objects are
        # distinct handlers all the same
        if self.eqmode and isinstance(other, Rec) and other.eqmode:
            return True
        return self is other

    def __hash__(self):
        if self.eqmode == 2:
            raise TypeError('unhashable handler (defines __eq__ without __hash__)')
        return 7 if self.eqmode else object.__hash__(self)

    def __bool__(self):
        # some handlers are falsy objects (think of a container-like component that is empty right now):
        # they are handlers all the same
        return self.truth

    def __repr__(self):
        return '<%s#%d>' % (type(self).__name__, self.ix)


for _n in EVENTS + METHODS:
    setattr(Rec, _n, _make_method(_n))


def decode_class(p):
    parent = p % 7
    p //= 7
    if p % 4 == 0:
        # left undecorated (or decorated with nothing): the class shares its parent's mapping object, while it
        # overrides the callback methods like every generated class
        return {'parent': parent, 'names': [], 'maps': [], 'mixin': (p // 4) % 3}
    p //= 4
    bits = p % 32
    p //= 32
    nmaps = (0, 0, 1, 1, 2)[p % 5]
    p //= 5
    maps = []
    for _ in range(nmaps):
        maps.append([p % 5, p // 5 % 6])
        p //= 30
    mixin = p % 3
    return {'parent': parent, 'names': [i for i in range(5) if bits >> i & 1], 'maps': maps, 'mixin': mixin}


CLASS_SPACE = 7 * 4 * 32 * 5 * 900 * 3


def decode_op(t):
    sel, p = t
    d = [(p >> (4 * i)) & 15 for i in range(5)]
    kind = ('add', 'add', 'add', 'remove', 'remove', 'dispatch', 'dispatch', 'dispatch', 'dispatch', 'arm',
            'arm', 'stranger', 'unknown', 'cycle')[sel % 14]
    if kind == 'cycle':
        return ['cycle', d[0], d[1]]
    if kind in ('add', 'remove', 'stranger'):
        return [kind, d[0]]
    if kind == 'dispatch':
        return ['dispatch', d[0], d[1] % 4, d[2] % 4, d[3]]
    if kind == 'arm':
        return ['arm', d[0], d[1] % 3, d[2], d[3] % 5]
    return ['unknown', d[0] % 2, d[1] % 4]


def strategy():
    cls = worldops.packed(CLASS_SPACE).map(decode_class)
    op = st.tuples(st.integers(0, 13), worldops.packed(16 ** 5)).map(decode_op)
    return st.fixed_dictionaries({
        'classes': st.lists(cls, min_size=2, max_size=6),
        'handlers': st.lists(st.integers(0, 23), min_size=1, max_size=6),
        'ops': worldops.chunked(op, 40),
        # population scale: 0, or the number of copies each generated handler is blown up to ("add" / "remove" then
        # register / remove the copies one at a time, dispatching after each)
        'amp': worldops.size_amp()})


class UserError(Exception):
    """raised by a callback of the program under test"""


class UserKeyError(UserError, KeyError):
    pass


class UserLookupError(UserError, LookupError):
    pass


class UserAttributeError(UserError, AttributeError):
    pass


class UserStopIteration(UserError, StopIteration):
    pass


class UserRuntimeError(UserError, RuntimeError):
    pass


USER_ERRORS = [UserError, UserKeyError, UserLookupError, UserAttributeError, UserStopIteration, UserRuntimeError]


class Frame:
    tolerant = False

    def __init__(self, name, args, kwargs, start):
        self.name, self.args, self.kwargs = name, args, kwargs
        self.start = start              # handler ix registered at frame start whose class maps the event
        self.removed, self.added = set(), set()
        self.calls = []


class Run:
    def __init__(self, case):
        self.case = case
        self.flags = collections.Counter()
        self.stack = []
        self.step_ix = -1
        self.registered = set()
        self.scripts = {}
        self.raise_in = None
        self.any_rereg_or_removal = False

    def viol(self, clause, **d):
        d['step'] = self.step_ix
        d['op'] = self.case['ops'][self.step_ix] if 0 <= self.step_ix < len(self.case['ops']) else None
        raise PropertyViolation(clause, d)

    # ---- (a) hierarchies ------------------------------------------------------------------------------
    def build_classes(self):
        self.classes, self.expected = [], []
        for i, spec in enumerate(self.case['classes']):
            parent = spec['parent'] % (i + 1)
            if parent == i:
                bases, inherited = (Rec,), None
            else:
                bases, inherited = (self.classes[parent],), self.expected[parent]
            if spec['mixin'] == 1:
                bases = (type('Mx%d' % i, (), {}),) + bases
            elif spec['mixin'] == 2:
                bases = bases + (type('Mx%d' % i, (), {}),)
            # every class overrides every callback method: which class's function runs is observable, and it must
            # be the one a normal attribute lookup on the handler's own class finds
            cls = type('H%d' % i, bases, {nme: _make_method(nme, i) for nme in EVENTS + METHODS})
            names = [EVENTS[k] for k in spec['names']]
            maps = {EVENTS[e]: METHODS[m] for e, m in spec['maps']}
            try:
                out = desper.event_handler(*names, **maps)(cls)
            except Exception as exc:
                self.viol('event_handler_raised', exception=repr(exc), cls=i)
            if out is not cls:
                self.viol('event_handler_must_return_the_decorated_class', cls=i)
            own = dict(zip(names, names))
            own.update(maps)
            if not names and not maps:
                exp = inherited
            else:
                exp = dict(inherited or {})
                exp.update(own)
                if inherited and any(inherited.get(k) != v for k, v in own.items() if k in inherited):
                    self.flags['override_inherited_mapping'] += 1
                if inherited:
                    self.flags['extend_inherited_mapping'] += 1
            self.classes.append(cls)
            self.expected.append(exp)
            self.check_mappings('after decorating class %d' % i)

    def check_mappings(self, where):
        for j, (cls, exp) in enumerate(zip(self.classes, self.expected)):
            if cls.__name__ == 'Mute':
                continue
            got = getattr(cls, '__events__', None)
            if exp is None:
                if got is not None:
                    self.viol('undecorated_class_without_handler_base_got_a_mapping', cls=j, got=dict(got))
                continue
            if got is None or dict(got) != exp:
                self.viol('class_mapping_is_parent_extended_and_overridden_by_own_and_bases_unaltered',
                          where=where, cls=j, got=None if got is None else dict(got), expected=exp)

# ---- (b) histories --------------------------------------------------------------------------------
    def on_call(self, h, method, args, kwargs, defcls=None):
        if not self.stack:
            self.viol('callback_outside_any_dispatch', handler=repr(h), method=method)
        if defcls is not None and defcls != self.hcls[h.ix]:
            self.viol('called_the_method_mapped_to_the_event', handler=h.ix, method=method,
                      function_defined_in_class=defcls, handler_class=self.hcls[h.ix],
                      note='an overriding subclass got the function of a base class')
        self.stack[-1].calls.append((h.ix, method, args, kwargs))
        if self.raise_in == h.ix and len(self.stack) == 1 and self.stack[0].tolerant:
            self.raise_in = None
            self.flags['callback_raised_during_a_release'] += 1
            # what user code raises is often one of the built-in exception types (a failed lookup, an exhausted
            # iterator): none of them means anything to the dispatcher
            raise USER_ERRORS[(h.ix + len(self.stack[0].calls)) % len(USER_ERRORS)]('callback failed')
        script = self.scripts.pop(h.ix, None)
        if script is not None and len(self.stack) < 3:
            self.flags['script_ran'] += 1
            self.exec_script(script)
        elif script is not None:
            self.scripts[h.ix] = script

    def exec_script(self, script):
        kind = script[0]
        if kind == 0:
            self.do_add(script[1], nested=True)
        elif kind == 1:
            self.do_remove(script[1], nested=True)
        else:
            self.flags['reentrant_dispatch'] += 1
            self.do_dispatch(EVENTS[script[2]], (script[1],), {})

    def maps(self, hix, name):
        exp = self.expected[self.hcls[hix]]
        return exp is not None and name in exp

    def do_add(self, sel, nested=False):
        hix = sel % len(self.handlers)
        if hix in self.registered:
            self.flags['re_registration'] += 1
            self.any_rereg_or_removal = True
        try:
            self.d.add_handler(self.handlers[hix])
        except Exception as exc:
            self.viol('add_handler_raised', exception=repr(exc))
        if hix not in self.registered:
            for f in self.stack:
                f.added.add(hix)
        self.registered.add(hix)
        if nested:
            self.flags['add_from_callback'] += 1

    def do_remove(self, sel, nested=False):
        hix = sel % len(self.handlers)
        try:
            self.d.remove_handler(self.handlers[hix])
        except Exception as exc:
            self.viol('remove_handler_raised', exception=repr(exc))
        if hix in self.registered:
            self.any_rereg_or_removal = True
            self.flags['removal'] += 1
            for f in self.stack:
                f.removed.add(hix)
        self.registered.discard(hix)
        if nested:
            self.flags['remove_from_callback'] += 1

    def do_dispatch(self, name, args, kwargs):
        start = {h for h in self.registered if self.maps(h, name)}
        frame = Frame(name, args, kwargs, start)
        self.stack.append(frame)
        try:
            self.d.dispatch(name, *args, **kwargs)
        except PropertyViolation:
            raise
        except Exception as exc:
            self.viol('dispatch_raised', event=name, exception=repr(exc))
        finally:
            self.stack.pop()
        counts = collections.Counter(c[0] for c in frame.calls)
        for h in start:
            n = counts.get(h, 0)
            if h in frame.removed:
                ok = n in (0, 1)
            else:
                ok = n == 1
            if not ok:
                self.viol('registered_handler_called_exactly_once_per_dispatch', event=name, handler=h, calls=n,
                          removed_during_frame=h in frame.removed)
        for h, n in counts.items():
            if h not in start:
                if not (h in frame.added and self.maps(h, name) and n == 1):
                    self.viol('dispatch_calls_nothing_else', event=name, handler=h, calls=n,
                              registered=h in self.registered)
        for (h, method, a, k) in frame.calls:
            want = self.expected[self.hcls[h]][name]
            if method != want:
                self.viol('called_the_method_mapped_to_the_event', event=name, handler=h, got=method, expected=want)
            if len(a) != len(args) or any(x is not y for x, y in zip(a, args)):
                self.viol('positional_arguments_passed_unchanged', event=name, got=repr(a), expected=repr(args))
            if set(k) != set(kwargs) or any(k[key] is not kwargs[key] for key in kwargs):
                self.viol('keyword_arguments_passed_unchanged', event=name, got=repr(k), expected=repr(kwargs))
        if len(start) >= 2 and (args or kwargs) and self.any_rereg_or_removal:
            self.flags['nontrivial_dispatch'] += 1
        if len(self.stack) == 0:
            self.flags['dispatch'] += 1
        return frame

    def op_cycle(self, evsel, hsel):
        """disable; dispatch (postponed); enable - and one listener's callback raises during the release.  What the
        interrupted release owes is C04's subject; here: nobody is called twice or without being a listener, the
        exception comes out, and afterwards dispatching IS enabled again - the rest of the history must behave as
        ever."""
        name = self.pick_event(evsel)
        try:
            self.d.dispatch_enabled = False
            self.d.dispatch(name, 'postponed')
        except Exception as exc:
            self.viol('disabling_or_postponed_dispatch_raised', exception=repr(exc))
        start = {h for h in self.registered if self.maps(h, name)}
        frame = Frame(name, ('postponed',), {}, start)
        frame.tolerant = True
        victim = hsel % len(self.handlers)
        self.raise_in = victim if victim in start else None
        expect_raise = self.raise_in is not None
        self.stack.append(frame)
        raised = False
        try:
            self.d.dispatch_enabled = True
        except UserError:
            raised = True
        except PropertyViolation:
            raise
        except Exception as exc:
            self.viol('enabling_raised', exception=repr(exc))
        finally:
            self.stack.pop()
            self.raise_in = None
        if expect_raise and not raised:
            self.viol('exception_of_a_callback_swallowed_by_the_release')
        counts = collections.Counter(c[0] for c in frame.calls)
        for h, n in counts.items():
            if n > 1 or not ((h in start or h in frame.added) and self.maps(h, name)):
                self.viol('dispatch_calls_nothing_else', event=name, handler=h, calls=n, postponed=True)
        if not raised:
            for h in start:
                if h not in frame.removed and counts.get(h, 0) != 1:
                    self.viol('registered_handler_called_exactly_once_per_dispatch', event=name, handler=h,
                              calls=counts.get(h, 0), postponed=True)
        if not self.d.dispatch_enabled:
            self.viol('dispatcher_not_enabled_after_the_enabling_assignment')
        self.flags['postponed_cycle'] += 1

    def pick_event(self, sel):
        """operand values < 12 prefer events that currently have several (else some) listeners."""
        if sel < 12:
            n = {e: sum(1 for h in self.registered if self.maps(h, e)) for e in EVENTS}
            for least in (2, 1):
                cands = [e for e in EVENTS if n[e] >= least]
                if cands:
                    return cands[sel % len(cands)]
        return EVENTS[sel % 5]

    def check_is_handler(self):
        for hix, h in enumerate(self.handlers):
            try:
                got = self.d.is_handler(h)
            except Exception as exc:
                self.viol('is_handler_raised', exception=repr(exc))
            if bool(got) != (hix in self.registered):
                self.viol('is_handler_agrees_with_registration_history', handler=hix, got=got,
                          expected=hix in self.registered)

    def run(self):
        self.build_classes()
        # a handler class that opted out of every event (empty mapping): registered, removed and queried like any
        # other handler, never called
        self.classes.append(type('Mute', (Rec,), {'__events__': {}}))
        self.expected.append({})
        handler_classes = [i for i, e in enumerate(self.expected) if e is not None]
        if not handler_classes:
            self.flags['no_handler_class'] += 1
            return
        specs = list(self.case['handlers'])
        self.nbase = len(specs)
        self.copies = 1
        if self.case.get('amp'):
            self.copies = self.case['amp']
            specs = specs * self.copies
            self.flags['amplified_population'] += 1
        self.hcls = [handler_classes[k % 6 % len(handler_classes)] for k in specs]
        self.handlers = []
        for ix, ci in enumerate(self.hcls):
            h = self.classes[ci]()
            h._run = self
            h.ix = ix
            h.truth = (specs[ix] % 6 + ix) % 3 != 0
            if not h.truth:
                self.flags['falsy_handler'] += 1
            h.eqmode = (0, 0, 1, 2)[specs[ix] // 6 % 4]
            self.handlers.append(h)
        self.strangers = [self.classes[handler_classes[0]]() for _ in range(2)]
        self.strangers[1].eqmode = 1        # a stranger that EQUALS the value-equal handlers: still a stranger
        neq = sum(1 for h in self.handlers if h.eqmode)
        if neq >= 2:
            self.flags['equal_but_distinct_handlers'] += 1
        if any(h.eqmode == 2 for h in self.handlers):
            self.flags['unhashable_handler'] += 1
        self.d = desper.EventDispatcher()
        self.check_is_handler()
        for self.step_ix, op in enumerate(self.case['ops']):
            kind = op[0]
            if kind in ('add', 'remove') and self.copies > 1:
                # wind / unwind: the copies are registered (removed) one at a time with a dispatch of one of their
                # events after each - the listener count of that event passes through every value on the way
                base = op[1] % self.nbase
                exp = self.expected[self.hcls[base]]
                ev = sorted(exp)[op[1] % len(exp)] if exp else None
                for c in range(self.copies):
                    (self.do_add if kind == 'add' else self.do_remove)(base + c * self.nbase)
                    if ev is not None and not self.stack:
                        self.do_dispatch(ev, (c,), {})
            elif kind == 'add':
                self.do_add(op[1])
            elif kind == 'remove':
                self.do_remove(op[1])
            elif kind == 'stranger':
                s = self.strangers[op[1] % 2]
                try:
                    self.d.remove_handler(s)
                    if self.d.is_handler(s):
                        self.viol('stranger_became_handler')
                except PropertyViolation:
                    raise
                except Exception as exc:
                    self.viol('remove_handler_of_stranger_raised', exception=repr(exc))
                self.flags['remove_stranger'] += 1
            elif kind == 'dispatch':
                args = tuple(make_value(op[3] + i) for i in range(op[2]))
                # keyword names: any identifier the API does not use for its own parameters (self, event_name)
                kwargs = {KWNAMES[(op[4] + 5 * i) % len(KWNAMES)]: make_value(op[4] + i) for i in range(op[3] % 3)}
                self.do_dispatch(self.pick_event(op[1]), args, kwargs)
            elif kind == 'cycle':
                self.op_cycle(op[1], op[2])
            elif kind == 'arm':
                self.scripts[op[1] % len(self.handlers)] = (op[2], op[3], op[4])
            elif kind == 'unknown':
                f = self.do_dispatch(UNKNOWN[op[1]], tuple(make_value(i) for i in range(op[2])), {})
                if f.calls:
                    self.viol('unknown_event_reached_a_callback')
                self.flags['unknown_event'] += 1
            self.check_is_handler()
        self.check_mappings('after the history')


def make_value(i):
    v = ARG_VALUES[i % len(ARG_VALUES)]
    if isinstance(v, (list, dict)):
        return type(v)()
    if i % 7 == 6:
        return object()
    return v


def run_case(case):
    run = Run(case)
    run.run()
    f = run.flags
    return {'nontrivial': bool(f['nontrivial_dispatch']), 'classes': sorted(k for k, v in f.items() if v),
            'steps': len(case['ops'])}
