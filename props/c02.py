"""C02 - Component lifecycle callbacks fire exactly once per attach/detach (DESIGN 3/C02)."""
from vlib import worldops

ID = 'C02'
LEVEL = 'exploration'
BUDGET = {'quick': 1200, 'thorough': 5000}
RULE = ('Hypothesis-generated World histories (create/add/replace/remove/delete/delete_now/process/clear) '
        'interleaved with dispatch_enabled toggles and probe dispatches, including operations issued re-entrantly by '
        'armed lifecycle callbacks (a component removing itself in its on_add, deleting its own or another entity, '
        'disabling dispatching in the middle of create_entity; a postponed callback that, when released, runs its own '
        'disable / attach / enable batch), over recorder component classes of all '
        'declaration shapes (handler or not, on_add and/or on_remove, renamed methods, extra probe listener, '
        'inherited mappings; falsy instances; value-equal instances, hashable or not). Oracle: a reference model yields for every operation the multiset of owed '
        'callbacks (receiver identity, entity, world); enabled: the log segment of the operation must equal '
        'it; disabled: no callback may run and the owed groups must be delivered in operation order at the '
        'enabling assignment; is_handler(c) <=> attached after every step; probes reach exactly the attached '
        'listeners once. '
        'A small share of the histories is AMPLIFIED (one operation, each operation or the whole history repeated 70-1100 times; a long disabled period is released and judged at the end). '
        ''
        'In half of the cases ANOTHER world lives next to the one under test, disabled, with one handler component whose on_add is postponed there: it stays postponed whatever happens to the world under test, and is delivered exactly once, with its own entity and world, when that world is enabled at the end. Further generator dimensions: classes defined in the middle of the history, handlers whose __events__ mapping lives on the instance, lean classes that define only the callbacks they declare (the others do not exist as methods). What a class declares is computed from the generated spec (first ancestor in lookup order, extended and overridden by its own decoration), never read back from __events__. '
        'Non-trivial = a handler component detached by replacement, immediate deletion or '
        'clear, or a lifecycle callback postponed across a disable/enable cycle, or reuse after clear. '
        'Distinct = sha1 of canonical JSON.')
ASSUMPTIONS = [
    'callback order inside one operation is not fixed (multiset per operation)',
    'clear() is only issued while dispatching is enabled (EventDispatcher.clear documents that pending events '
    'are dropped; C02 says postponed callbacks are not lost; the check does not arbitrate)',
    'probe events are only dispatched while enabled (deferred delivery is C04)',
    'generator restrictions of the world-ops engine (see C01)',
]
WEIGHTS = {'create': 6, 'add': 8, 'remove': 5, 'delete': 3, 'delete_now': 3, 'process': 3, 'clear': 2,
           'toggle': 5, 'probe': 3}
FINDINGS = {}


def strategy():
    return worldops.case_strategy(WEIGHTS)


def run_case(case):
    run = worldops.Run(case, checks={'lifecycle'})
    try:
        run.run()
    except worldops.PropertyViolation as v:
        v.info = worldops.info_from(run, False)
        raise
    f = run.flags
    nontrivial = (f['handler_detached_by_replace'] or f['handler_detached_by_delete_now']
                  or f['handler_detached_by_clear'] or f['released_postponed'] or f['reuse_after_clear'])
    return worldops.info_from(run, nontrivial)
