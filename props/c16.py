"""C16 - Directory population mirrors the file tree under the rules (DESIGN 3/C16)."""
import collections
import os
import os.path as pt
import shutil
import tempfile

import desper
from hypothesis import strategies as st

from vlib.core import PropertyViolation
from vlib import worldops

ID = 'C16'
LEVEL = 'exploration'
BUDGET = {'quick': 1600, 'thorough': 4000}
RULE = ('Hypothesis-generated file trees (<= 25 nodes, depth <= 4; names with blanks, inner dots, several '
        'extensions incl. none and double ones, upper case, non-ASCII; empty directories; equal stems with '
        'different extensions; a directory whose name has an extension) materialised in a fresh temporary '
        'directory, 1-4 rules (top-level, nested, missing or regular-file paths; two factories; extra args / '
        'kwargs; extension filters; the handles of one factory are falsy objects), nest_on_conflict and trim_extensions given at construction, per call or '
        'both, 1-3 population calls on the same map (empty or pre-populated), optional root override; between two '
        'calls a file may turn into a directory of the same name that holds files. Oracle: '
        'independent os.walk reference producing, per call, the list of (key, rule, file) productions; required '
        'keys present with handles built from (file path, *args, **kwargs), prefixes are sub-maps, nothing '
        'else reachable in any layer, conflict rules (all layers retrievable with nesting, replacement '
        'without, newest call visible), ValueError for a rule path that is a regular file - after which the '
        'offending file is removed and the SAME populator is used again on a fresh map (options of the rejected '
        'call must not linger). '
        'In ~17% of the cases the last population call is repeated up to 33-261 times on the same map (odd sizes force nest_on_conflict), bounded by the size of the tree. '
        ''
        'Roots may be spelled with a trailing separator (at construction, per call or both). '
        'Non-trivial = a '
        'file at depth >= 2 under a rule with a non-empty extension filter, or a key conflict, or a rule '
        'pointing at a regular file. Distinct = sha1 of canonical JSON.')
ASSUMPTIONS = [
    'names beginning with "." are not generated (glob hides them by convention); rule directory names contain '
    'no glob metacharacters; rule directories "." / "" are not generated',
    'directory names and file stems are drawn from disjoint pools, so a trimmed file key never equals a sibling '
    'directory key (the statement defines handle-vs-handle conflicts only); likewise a file only turns into a '
    'directory between two calls when no sibling file trims to its name',
    'which of several same-key files of ONE call ends up on top is a file-system (listing order) matter: any of '
    'the productions of the newest call is accepted as the visible handle',
    'case-sensitive local file system, no symlinks, no permission errors',
]
FINDINGS = {}

STEMS = ['a', 'b', 'x y', 'é', 'a.b', 'data']
EXTS = ['', '.txt', '.png', '.tar.gz', '.TXT']
DIRS = ['d1', 'd2', 'sub dir', 'x.png', 'é_d']
FILTERS = [[], [], ['.txt'], ['.png', '.txt'], ['.gz'], [''], ['.TXT'], ['.b']]
ARGVALS = [[], [], [1], ['x', None], [[1, 2]]]
KWVALS = [{}, {}, {'k': 1}, {'mode': 'r', 'n': None}]


class RecHandle(desper.Handle):
    factory = 0

    def __init__(self, filename, *args, **kwargs):
        self.ctor = (filename, args, kwargs)

    def load(self):
        return self.ctor


class RecHandle2(RecHandle):
    factory = 1

    def __len__(self):
        return 0            # handles of this factory are falsy objects (like a handle over an empty file)


FACTORIES = [RecHandle, RecHandle2]


def decode_node(p):
    parent = p % 6
    p //= 6
    if p % 4 == 0:
        return {'parent': parent, 'dir': DIRS[p // 4 % len(DIRS)]}
    p //= 4
    return {'parent': parent, 'file': STEMS[p % len(STEMS)] + EXTS[p // len(STEMS) % len(EXTS)]}


def decode_rule(p):
    return {'dir': p % 8, 'factory': p // 8 % 2, 'exts': FILTERS[p // 16 % len(FILTERS)],
            'args': ARGVALS[p // 128 % len(ARGVALS)], 'kwargs': KWVALS[p // 640 % len(KWVALS)]}


def decode_call(p):
    tri = [None, True, False]
    return {'nest': tri[p % 3], 'trim': tri[p // 3 % 3]}


def strategy():
    return st.fixed_dictionaries({
        'nodes': st.lists(worldops.packed(6 * 4 * 30).map(decode_node), min_size=1, max_size=25),
        'rules': st.lists(worldops.packed(640 * 4).map(decode_rule), min_size=1, max_size=4),
        'calls': st.lists(st.integers(0, 8).map(decode_call), min_size=1, max_size=3),
        'ctor': st.integers(0, 3).map(lambda p: {'nest': bool(p % 2), 'trim': bool(p // 2)}),
        'pre': st.booleans(), 'root_override': st.booleans(), 'rootsep': st.integers(0, 3),
        # between two population calls a file may turn into a directory holding files (same name)
        'morph': st.lists(st.integers(0, 11), min_size=2, max_size=2),
        'amp': worldops.size_amp(none=24, sizes=(33, 70, 257, 259, 261))})


def viol(clause, **d):
    raise PropertyViolation(clause, d)


def key_of(path, root):
    return pt.normpath(pt.relpath(path, root)).replace(pt.sep, '/')


def run_case(case):
    facts = collections.Counter()
    tmp = tempfile.mkdtemp(prefix='desper-c16-')
    try:
        return _run(case, tmp, facts)
    finally:
        shutil.rmtree(tmp, ignore_errors=True)


def _run(case, tmp, facts):
    root = pt.join(tmp, 'root')
    os.mkdir(root)
    dirs = [root]
    depth = {root: 0}
    files = []
    for nd in case['nodes']:
        parent = dirs[nd['parent'] % len(dirs)]
        if 'dir' in nd:
            p = pt.join(parent, nd['dir'])
            if depth[parent] >= 3 or pt.exists(p):
                continue
            os.mkdir(p)
            dirs.append(p)
            depth[p] = depth[parent] + 1
        else:
            p = pt.join(parent, nd['file'])
            if pt.exists(p):
                continue
            with open(p, 'w') as f:
                f.write('x')
            files.append(p)
    # rules: directory selectors 0..5 -> an existing sub-directory (relative), 6 -> missing, 7 -> a regular file
    subdirs = [pt.relpath(d, root) for d in dirs[1:]]
    rules = []
    for r in case['rules']:
        sel = r['dir']
        if sel == 7 and files:
            rel = pt.relpath(files[len(rules) % len(files)], root)
            facts['rule_path_is_regular_file'] += 1
        elif sel == 6 or not subdirs:
            rel = 'missing/dir'
            facts['rule_path_missing'] += 1
        else:
            rel = subdirs[sel % len(subdirs)]
        rules.append({'rel': rel, 'factory': FACTORIES[r['factory']], 'exts': list(r['exts']),
                      'args': list(r['args']), 'kwargs': dict(r['kwargs'])})

    ctor_root = pt.join(tmp, 'elsewhere') if case['root_override'] else root
    # how the root is spelled is the caller's business: with a trailing separator it is the same directory
    rootsep = case.get('rootsep', 0)
    if rootsep in (1, 3):
        ctor_root = ctor_root + os.sep
        facts['root_spelled_with_trailing_separator'] += 1
    pop = desper.DirectoryResourcePopulator(ctor_root, nest_on_conflict=case['ctor']['nest'],
                                            trim_extensions=case['ctor']['trim'])
    for r in rules:
        pop.add_rule(r['rel'], r['factory'], *r['args'], file_exts=r['exts'], **r['kwargs'])

    rmap = desper.ResourceMap()
    pre_handle = None
    if case['pre']:
        pre_handle = RecHandle('pre-existing')
        rmap['pre/x'] = pre_handle
        facts['prepopulated_map'] += 1

    productions = collections.defaultdict(list)     # key -> [(call_ix, rule_ix, normalised path)]
    allowed_dirs = set()
    nest_modes = []
    calls = list(case['calls'])
    amp = case.get('amp') or 0
    if amp:
        # hot reloading: the last population call is repeated many times on the same map.  (Every nested
        # population adds a layer and every lookup walks all layers: the number of repetitions is bounded by the
        # size of the tree, so that a case stays well below a second.)
        amp = max(8, min(amp, int((1500000 / max(1, len(files) * len(case["rules"]))) ** 0.5)))
        last = dict(calls[-1])
        if case['amp'] % 2:
            last['nest'] = True        # odd sizes: the repeated call nests on conflict (a layer per call and key)
        calls = calls + [dict(last) for _ in range(amp)]
        facts['many_populations'] += 1
        if amp > 256:
            facts['more_than_256_populations'] += 1
    ci = -1
    while ci + 1 < len(calls):
        ci += 1
        call = calls[ci]
        nest = case['ctor']['nest'] if call['nest'] is None else call['nest']
        trim = case['ctor']['trim'] if call['trim'] is None else call['trim']
        nest_modes.append(nest)
        # reference walk
        expect_error = False
        new_prods = []
        for ri, r in enumerate(rules):
            d = pt.join(root, r['rel'])
            if not pt.exists(d):
                continue
            if not pt.isdir(d):
                expect_error = True
                break
            for dirpath, dirnames, filenames in os.walk(d):
                k = key_of(dirpath, root)
                parts = k.split('/')
                for i in range(1, len(parts) + 1):
                    allowed_dirs.add('/'.join(parts[:i]))
                for fn in filenames:
                    if r['exts'] and pt.splitext(fn)[1] not in r['exts']:
                        continue
                    full = pt.join(dirpath, fn)
                    key = key_of(full, root)
                    if trim:
                        key = pt.splitext(key)[0]
                    new_prods.append((key, ci, ri, pt.normpath(full)))
                    if r['exts'] and key.count('/') >= 2:
                        facts['filtered_file_at_depth_2'] += 1
        kwargs = {}
        if call['nest'] is not None:
            kwargs['nest_on_conflict'] = call['nest']
        if call['trim'] is not None:
            kwargs['trim_extensions'] = call['trim']
        if case['root_override']:
            kwargs['root'] = root + os.sep if rootsep in (2, 3) else root
            if rootsep in (2, 3):
                facts['root_spelled_with_trailing_separator'] += 1
        try:
            pop(rmap, **kwargs)
        except ValueError as exc:
            if not expect_error:
                viol('population_raised_ValueError_without_a_regular_file_rule_path', exception=repr(exc))
            facts['valueerror_for_regular_file_rule'] += 1
            if facts['valueerror_for_regular_file_rule'] > 1:
                return info(facts, case)
            # The rejection is documented behaviour: the program repairs the tree (the offending file goes away,
            # the rule path is missing now and skipped) and populates again with the SAME populator.  What the
            # rejected call left in the map is not specified, so a fresh map is used from here on; the options
            # given to the rejected call must not linger.
            for r in rules:
                f = pt.join(root, r['rel'])
                if pt.isfile(f):
                    os.remove(f)
                    if f in files:
                        files.remove(f)
            rmap = desper.ResourceMap()
            pre_handle = None
            productions.clear()
            allowed_dirs.clear()
            del nest_modes[:]
            # the very next call relies on the construction-time options
            calls.insert(ci + 1, {'nest': None, 'trim': None})
            facts['population_after_a_rejected_call'] += 1
            continue
        except Exception as exc:
            if expect_error:
                viol('rule_path_that_is_a_regular_file_must_be_rejected_with_ValueError', exception=repr(exc))
            viol('population_raised', exception=repr(exc), call=ci)
        if expect_error:
            viol('rule_path_that_is_a_regular_file_was_not_rejected', call=ci)
        for key, c, ri, full in new_prods:
            # a key that was a file in an earlier call and is a directory now: the sub-map replaces the handle(s)
            parts = key.split('/')
            for i in range(1, len(parts)):
                stale = '/'.join(parts[:i])
                if stale in productions and all(p[0] < ci for p in productions[stale]):
                    del productions[stale]
                    facts['file_became_directory'] += 1
            productions[key].append((c, ri, full))
        facts['calls'] += 1
        if not amp or ci < 3 or ci % 64 == 0 or ci + 1 >= len(calls):
            check(rmap, rules, productions, allowed_dirs, nest_modes, pre_handle, facts)
        morph = (case.get('morph') or [1, 1])[min(ci, 1)]
        # a file may turn into a directory of the same name - but only one whose name is not the trimmed key of a
        # sibling file (handle-vs-directory conflicts are not defined by the statement, see ASSUMPTIONS)
        eligible = [f for f in files
                    if not any(s != f and pt.dirname(s) == pt.dirname(f)
                               and pt.splitext(pt.basename(s))[0] == pt.basename(f) for s in files)]
        if morph % 3 == 0 and eligible and ci + 1 < len(calls) and ci < len(case['calls']):
            f = eligible[morph % len(eligible)]
            files.remove(f)
            os.remove(f)
            os.mkdir(f)
            for inner in ('a.txt', 'b'):
                with open(pt.join(f, inner), 'w') as fh:
                    fh.write('x')
                files.append(pt.join(f, inner))
            facts['morphed_file_into_directory'] += 1
    return info(facts, case)


def info(facts, case):
    nontrivial = (facts['filtered_file_at_depth_2'] or facts['key_conflict']
                  or facts['valueerror_for_regular_file_rule'])
    return {'nontrivial': bool(nontrivial), 'classes': sorted(k for k, v in facts.items() if v),
            'steps': len(case['nodes'])}


def psig(prod, rules):
    c, ri, full = prod
    r = rules[ri]
    return (r['factory'], full, pt.isabs(full), repr(list(r['args'])), repr(sorted(r['kwargs'].items())))


def hsig(h):
    fn, args, kwargs = h.ctor
    return (type(h), pt.normpath(fn), pt.isabs(fn), repr(list(args)), repr(sorted(dict(kwargs).items())))


def matches(h, prod, rules):
    c, ri, full = prod
    r = rules[ri]
    fn, args, kwargs = h.ctor
    return (type(h) is r['factory'] and pt.normpath(fn) == full and pt.isabs(fn) == pt.isabs(full)
            and list(args) == r['args'] and dict(kwargs) == r['kwargs'])


def check(rmap, rules, productions, allowed_dirs, nest_modes, pre_handle, facts):
    # 1. required keys
    for key, prods in productions.items():
        parts = key.split('/')
        cur = rmap
        for i, part in enumerate(parts[:-1]):
            nxt = cur.get(part)
            if not isinstance(nxt, desper.ResourceMap):
                viol('directory_on_the_way_to_a_file_is_not_a_sub_map', key=key, prefix='/'.join(parts[:i + 1]),
                     got=repr(nxt))
            cur = nxt
        if rmap.get(key) is not cur.get(parts[-1]):
            viol('composite_key_and_chained_access_disagree', key=key)
        visible = cur.get(parts[-1])
        if not isinstance(visible, desper.Handle):
            viol('accepted_file_not_reachable_under_its_key', key=key, got=repr(visible),
                 files=[p[2] for p in prods])
        held = [layer[parts[-1]] for layer in cur.handles.maps if parts[-1] in layer]
        if len(prods) > 1:
            facts['key_conflict'] += 1
        # every held handle is a distinct production of this key (multiset of signatures: linear in the number of
        # productions, which grows with every population call)
        want = collections.Counter(psig(p, rules) for p in prods)
        for h in held:
            sg = hsig(h)
            if want[sg] <= 0:
                viol('handle_not_built_from_the_file_path_and_the_rule_arguments', key=key, ctor=repr(h.ctor),
                     factory=type(h).__name__, expected=[(rules[p[1]]['factory'].__name__, p[2],
                                                          rules[p[1]]['args'], rules[p[1]]['kwargs'])
                                                         for p in prods[-6:]])
            want[sg] -= 1
        last_call = max(p[0] for p in prods)
        if hsig(visible) not in {psig(p, rules) for p in prods if p[0] == last_call}:
            viol('visible_handle_is_not_from_the_newest_population_call', key=key, ctor=repr(visible.ctor))
        if all(nest_modes):
            if len(held) != len(prods):
                viol('nesting_keeps_every_older_handle_retrievable', key=key, layers_holding_key=len(held),
                     productions=len(prods))
        elif not any(nest_modes):
            if len(held) != 1:
                viol('without_nesting_the_new_handle_replaces_the_old_one', key=key, held=len(held))
    # 2. nothing else
    def walk(m, prefix):
        for layer in m.handles.maps:
            for name, h in layer.items():
                key = '/'.join(prefix + [name])
                if h is pre_handle:
                    continue
                if key not in productions:
                    viol('handle_without_a_corresponding_accepted_file', key=key, ctor=repr(getattr(h, 'ctor', None)))
        for name, sub in m.maps.items():
            key = '/'.join(prefix + [name])
            if key == 'pre' and pre_handle is not None:
                continue
            if key not in allowed_dirs:
                viol('sub_map_without_a_corresponding_directory', key=key)
            walk(sub, prefix + [name])
    walk(rmap, [])
    if pre_handle is not None and rmap.get('pre/x') is not pre_handle:
        viol('pre_existing_resource_lost', key='pre/x')
