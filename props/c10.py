"""C10 - Handlers are held weakly and never called after they are gone (DESIGN 3/C10)."""
import collections
import gc
import weakref

import desper
import desper.events
from hypothesis import strategies as st

from vlib.core import PropertyViolation
from vlib import worldops

ID = 'C10'
LEVEL = 'exploration'
BUDGET = {'quick': 1000, 'thorough': 3000}
RULE = ('Hypothesis-generated histories over populations of 2-6 recorder handlers, on a plain EventDispatcher '
        '(harness holds the only strong references and drops them at generated points) and on a World '
        '(components whose only strong reference is the world): add / remove / forget+gc.collect / dispatch / '
        'arm a one-shot "killer" callback that makes another handler disappear in the middle of a dispatch '
        '(drops its last reference, removes its component or deletes its entity immediately, or calls clear() on '
        'the dispatcher / world from inside the callback and drops every other handler); dispatches are '
        'direct or postponed (disable; dispatch; enable - the release delivers it). The listener '
        'iteration order of every dispatch is part of the case: a generated permutation (half of the '
        'dispatches) or slot order, injected through an ordered set in desper.events. Oracle: every '
        'callback has a live receiver of the right class; after forget + gc.collect() the harness weakref is '
        'dead; every dispatch returns normally and reaches exactly the surviving registered listeners once '
        '(a listener killed during that dispatch: 0 or 1). '
        'In ~12% of the cases every direct dispatch is repeated 64-150 times (hot events). Handlers may exist and be registered before the history starts; a strike operation arms a killer and at once dispatches an event killer and victim both listen to; a killer callback may first dispatch another event itself (a dispatch nested in the dispatch) and only then make its victim disappear. The injected ordered set fails like the built-in set when it is changed while being iterated. '
        ''
        'Every third dispatch carries keyword arguments; in a third of the cases every handler gets a weakref.finalize callback (registered after it was added) that dispatches one of its events while the handler dies. '
        'Exceptions the interpreter can only report (raised inside weak-reference callbacks) count as a failed clean-up when they come out of the dispatcher. Non-trivial = a handler died during a dispatch while '
        'its callback for that event had not yet run (exact under injected order). Distinct = sha1 of canonical '
        'JSON.')
ASSUMPTIONS = [
    'CPython reference counting (an object dies when its last strong reference is dropped; gc.collect() is '
    'called at drop points as well)',
    'dispatching is only disabled around a single postponed dispatch (a queued lifecycle relay would '
    'legitimately hold its component until delivery)',
    'the order injection is a harness-side module global named set in desper.events; if the tree stops calling '
    'set(...) there the injection silently stops applying (schedule_control_used drops to 0), checks stay sound',
]
FINDINGS = {}
EVENTS = ['u', 'v', 'w']


class OrderedSet(set):
    """A set whose iteration order is chosen by the harness (rank of the handler a (ref, method) pair belongs to)."""
    run = None

    def add(self, item):
        self._note(item)
        set.add(self, item)

    def __init__(self, it=()):
        items = list(it)
        set.__init__(self, items)
        for i in items:
            self._note(i)

    @staticmethod
    def _note(item):
        run = OrderedSet.run
        try:
            obj = item[0]()
            if obj is not None and run is not None:
                run.ref_slot[id(item[0])] = obj.ix
        except Exception:
            pass

    def __iter__(self):
        run = OrderedSet.run
        items = list(set.__iter__(self))
        if run is None or run.perm is None:
            return self._guarded(items)
        run.order_used += 1

        def rank(item):
            try:
                slot = run.ref_slot.get(id(item[0]), 99)
            except Exception:
                slot = 99
            return run.perm.index(slot) if slot in run.perm else 99
        return self._guarded(sorted(items, key=rank))

    def _guarded(self, items):
        # like the built-in set: changing the set while it is being iterated is an error (the harness-chosen order
        # must not make a loop over the live listener set any safer than it is)
        n0 = len(items)
        for item in items:
            if len(self) != n0:
                raise RuntimeError('Set changed size during iteration')
            yield item
        if len(self) != n0:
            raise RuntimeError('Set changed size during iteration')


def perm_of(n, k):
    """k-th permutation of range(n) (factorial number system)."""
    items = list(range(n))
    out = []
    for i in range(n, 0, -1):
        out.append(items.pop(k % i))
        k //= i
    return out


def decode_op(t):
    sel, p = t
    d = [(p >> (4 * i)) & 15 for i in range(4)]
    kind = ('add', 'add', 'remove', 'forget', 'forget', 'dispatch', 'dispatch', 'dispatch', 'deferred', 'arm', 'arm',
            'arm', 'gc', 'deferred', 'strike', 'strike', 'reset')[sel % 17]
    if kind == 'reset':
        return ['reset', d[0]]
    if kind in ('add', 'remove', 'forget'):
        return [kind, d[0] % 6]
    if kind in ('dispatch', 'deferred'):
        return [kind, d[0], (p >> 4) % 1440]       # perm selector: odd -> injected order
    if kind == 'strike':
        # arm a killer and at once dispatch an event that killer and victim both listen to (if there is one)
        return ['strike', d[0] % 6, d[1] % 6, (0, 1, 2, 3, 4, 5, 4, 5)[d[2] % 8], (p >> 4) % 1440]
    if kind == 'arm':
        return ['arm', d[0] % 6, d[1] % 6, (0, 1, 2, 3, 3, 0, 4, 5, 4, 5, 0, 1, 2, 3, 4, 5)[d[2]]]
    return ['gc']


def strategy():
    op = st.tuples(st.integers(0, 16), worldops.packed(16 ** 4)).map(decode_op)
    return st.fixed_dictionaries({
        'mode': st.integers(0, 1),
        'handlers': st.lists(st.integers(0, 15), min_size=2, max_size=6),    # 0: a handler listening to nothing; bit 3:
        # the handler also declares the lifecycle callbacks on_add / on_remove (a World relays them through its queue
        # while dispatching is disabled)
        'ops': worldops.chunked(op, 36),
        # which handlers exist and are registered before the history starts (a third of the cases: all of them)
        'reg': worldops.packed(64 * 3).map(lambda v: 63 if v % 3 == 0 else v // 3),
        # scale: 0, or how many times every (direct) dispatch of the history is repeated
        'amp': worldops.size_amp(none=24),
        # finalizers: the program attaches a weakref.finalize to every handler it creates, which dispatches an event
        'finalizers': st.integers(0, 2).map(lambda k: int(k == 2))})


class Run:
    def __init__(self, case):
        self.case = case
        self.mode = case['mode']
        self.n = len(case['handlers'])
        self.flags = collections.Counter()
        self.step_ix = -1
        self.pending_violation = None
        self.closed = False
        self.executing = []
        self.quiet = False
        self.outer = []
        self.ref_slot = {}
        self.perm = None
        self.order_used = 0
        self.strong = [None] * self.n       # dispatcher mode: the only strong references
        self.weak = [None] * self.n
        self.registered = [False] * self.n
        self.entity = [None] * self.n       # world mode
        self.scripts = {}
        self.frame = None
        self.classes = [self.make_class(i, m) for i, m in enumerate(case['handlers'])]

    def viol(self, clause, **d):
        d['step'] = self.step_ix
        d['op'] = self.case['ops'][self.step_ix] if 0 <= self.step_ix < len(self.case['ops']) else None
        d['order_injected'] = self.perm
        raise PropertyViolation(clause, d)

    def make_class(self, ix, mask):
        run = self
        evs = [e for i, e in enumerate(EVENTS) if mask >> i & 1]
        ns = {'__events__': {e: e for e in evs}, 'ix': ix, 'evs': frozenset(evs)}

        def make(ev):
            def cb(self, *args, **kwargs):
                run.on_cb(self, ix, ev, args)
            cb.__name__ = ev
            return cb
        for e in evs:
            ns[e] = make(e)
        if mask >> 3 & 1:
            def lifecycle(self, *args, **kwargs):
                run.on_lifecycle(self, ix)
            ns['__events__'].update(on_add='on_add', on_remove='on_remove')
            ns['on_add'] = ns['on_remove'] = lifecycle
        return type('W%d' % ix, (), ns)

    def alive(self, i):
        return self.weak[i] is not None and self.weak[i]() is not None

    # ---- callbacks ----------------------------------------------------------------------------------
    def on_cb(self, receiver, cls_ix, ev, args):
        if receiver is None:
            self.viol('callback_invoked_with_missing_receiver', event=ev, method_of_class=cls_ix,
                      frame=self.frame and self.frame['calls'])
        if not isinstance(receiver, self.classes[cls_ix]):
            self.viol('callback_receiver_of_wrong_class', event=ev, method_of_class=cls_ix, receiver=repr(receiver))
        if self.frame is None:
            self.viol('callback_outside_dispatch', event=ev, handler=cls_ix)
        self.frame['calls'].append(cls_ix)
        receiver = None
        # (callbacks reached by a dispatch that a finalizer issued are passive: their scripts stay armed)
        script = self.scripts.pop(cls_ix, None) if ('finalizer_of' not in self.frame
                                                    and 'nested_from' not in self.frame) else None
        if script is not None:
            # (a handler whose callback is running is referenced by that call: dropping the program's references
            # cannot make it go away before the callback returns - also when the drop comes from a nested dispatch)
            self.executing.append(cls_ix)
            try:
                if script[1] == 3:
                    self.clear_all(from_callback=cls_ix)
                elif script[1] >= 4:
                    # the callback first dispatches another event itself (a dispatch nested in this one), and only
                    # then makes the other handler disappear - still in the middle of the outer dispatch
                    self.ping(cls_ix)
                    self.kill(script[0], script[1] - 4, from_callback=cls_ix)
                    self.flags['death_after_a_nested_dispatch'] += 1
                else:
                    self.kill(script[0], script[1], from_callback=cls_ix)
            finally:
                self.executing.pop()

    def on_lifecycle(self, receiver, cls_ix):
        if receiver is None or not isinstance(receiver, self.classes[cls_ix]):
            self.viol('callback_invoked_with_missing_receiver', event='on_add / on_remove', method_of_class=cls_ix)
        if self.quiet:
            self.viol('event_pending_at_clear_reached_a_former_handler_later', handler=cls_ix)

    def ping(self, cls_ix):
        cur = self.frame

        def listeners(e):
            return [k for k in range(self.n) if self.registered[k] and self.alive(k) and e in self.classes[k].evs]
        cands = [e for e in EVENTS if e != cur['ev'] and listeners(e)]
        ev = cands[0] if cands else cur['ev']
        start = listeners(ev)
        self.outer.append(cur)
        self.frame = {'ev': ev, 'calls': [], 'killed': set(), 'nested_from': cls_ix}
        try:
            self.d.dispatch(ev, 'dispatched from inside a callback')
        except PropertyViolation:
            raise
        except Exception as exc:
            self.viol('dispatch_raised', event=ev, exception=repr(exc), dispatched_from='a callback of %r' % cur['ev'])
        finally:
            nested, self.frame = self.frame, cur
            self.outer.pop()
        counts = collections.Counter(nested['calls'])
        for i in start:
            n = counts.get(i, 0)
            if not (n in (0, 1) if i in nested['killed'] else n == 1):
                self.viol('surviving_registered_listener_reached_exactly_once', event=ev, handler=i, calls=n,
                          dispatched_from='a callback of %r' % cur['ev'])
        for i in counts:
            if i not in start:
                self.viol('dispatch_reached_a_handler_that_is_gone_or_not_registered', event=ev, handler=i,
                          dispatched_from='a callback of %r' % cur['ev'])
        self.flags['dispatch_nested_in_a_dispatch'] += 1

    def kill(self, j, how, from_callback=None):
        """make handler j disappear (its last strong reference goes away)."""
        j %= self.n
        if not self.alive(j):
            return False
        for fr in self.outer:
            fr['killed'].add(j)
        if self.frame is not None:
            self.frame['killed'].add(j)
            if (self.registered[j] and self.frame['ev'] in self.classes[j].evs
                    and j not in self.frame['calls']):
                self.flags['died_mid_dispatch_before_its_turn'] += 1
            self.flags['died_mid_dispatch'] += 1
        if self.mode == 0:
            if how == 1 and self.registered[j]:
                self.d.remove_handler(self.strong[j])
            self.strong[j] = None
        else:
            if self.entity[j] is None:
                self.strong[j] = None
            elif how == 1:
                self.d.remove_component(self.entity[j], self.classes[j])
            else:
                self.d.delete_entity(self.entity[j], immediate=True)
            self.entity[j] = None
            self.strong[j] = None
        self.registered[j] = False
        if j != from_callback and j not in self.executing and not self.outer:
            # (inside a dispatch nested in another one - a finalizer announcing a death - the outer loop may hold the
            # very handler it is about to call: whether it is gone is judged by the closing sweep instead)
            if self.weak[j]() is not None:
                gc.collect()        # reference cycles are legitimate; anything else shows below
                self.flags['needed_gc_collect'] += 1
            if self.weak[j]() is not None:
                self.viol('handler_kept_alive_after_last_reference_dropped', handler=j,
                          referrers=[type(r).__name__ for r in gc.get_referrers(self.weak[j]())][:6])
        return True

    def clear_all(self, from_callback):
        """a callback resets the dispatcher / world from inside the dispatch, then every other handler loses its
        last reference: none of them may be called any more (certainly not with a missing receiver)."""
        self.flags['clear_from_callback'] += 1
        was_alive = [self.alive(j) for j in range(self.n)]
        try:
            self.d.clear()
        except Exception as exc:
            self.viol('clear_raised', exception=repr(exc))
        for j in range(self.n):
            if not was_alive[j]:
                continue
            for fr in self.outer:
                fr['killed'].add(j)
            if self.frame is not None:
                self.frame['killed'].add(j)
                if self.registered[j] and self.frame['ev'] in self.classes[j].evs and j not in self.frame['calls']:
                    self.flags['died_mid_dispatch_before_its_turn'] += 1
            self.registered[j] = False
            self.entity[j] = None
            if j != from_callback:
                self.strong[j] = None
        gc.collect()
        for j in range(self.n):
            if (j != from_callback and j not in self.executing and not self.outer and self.weak[j] is not None
                    and self.weak[j]() is not None):
                self.viol('handler_kept_alive_after_last_reference_dropped', handler=j, after='clear()')
        self.strong[from_callback] = None

    # ---- ops ----------------------------------------------------------------------------------------
    def op_add(self, i):
        i %= self.n
        created = not self.alive(i)
        if created:
            h = self.classes[i]()
            self.weak[i] = weakref.ref(h)
            self.registered[i] = False
            self.entity[i] = None
            self.flags['created'] += 1
        else:
            h = self.strong[i] if self.mode == 0 else self.weak[i]()
        if self.mode == 0:
            self.strong[i] = h
            self.d.add_handler(h)
            if self.registered[i]:
                self.flags['registered_twice'] += 1
        else:
            if self.entity[i] is None:
                self.entity[i] = self.d.create_entity(h)
        self.registered[i] = True
        if created and self.case.get('finalizers') and self.classes[i].evs:
            # the program watches the death of its handlers (weakref.finalize, registered after the handler was
            # added) and announces it by dispatching an event the handler listened to - from inside the finalizer,
            # i.e. while the handler is going away
            weakref.finalize(h, self.on_finalize, i, sorted(self.classes[i].evs)[0])
            self.flags['handler_with_a_finalizer_that_dispatches'] += 1
        h = None

    def on_finalize(self, i, ev):
        """runs inside the interpreter's weak reference machinery: exceptions raised here would only be printed, so a
        violation is stored and raised by the operation that is running"""
        if self.closed:
            return
        saved = self.frame
        if saved is not None:
            self.outer.append(saved)        # a death inside the nested dispatch is a death during the outer ones too
        self.frame = {'ev': ev, 'calls': [], 'killed': set(), 'finalizer_of': i}
        try:
            self.d.dispatch(ev, 'announced by a finalizer')
            for k in self.frame['calls']:
                if k == i or (not self.alive(k) and k not in self.frame['killed']):
                    raise PropertyViolation('dispatch_reached_a_handler_that_is_gone_or_not_registered',
                                            {'event': ev, 'handler': k, 'dispatched_from': 'the finalizer of handler %d' % i})
            self.flags['dispatch_from_a_finalizer'] += 1
        except PropertyViolation as v:
            self.pending_violation = self.pending_violation or v
        except Exception as exc:
            self.pending_violation = self.pending_violation or PropertyViolation(
                'dispatch_raised', {'event': ev, 'exception': repr(exc), 'dispatched_from': 'a finalizer'})
        finally:
            if saved is not None:
                self.outer.pop()
            self.frame = saved

    def op_remove(self, i):
        i %= self.n
        if not self.alive(i):
            return
        if self.mode == 0:
            self.d.remove_handler(self.strong[i])
            self.registered[i] = False
            if self.d.is_handler(self.strong[i]):
                self.viol('removed_handler_still_registered', handler=i, events=sorted(self.classes[i].evs))
        else:
            self.kill(i, 1)

    def op_forget(self, i):
        reg = [k for k in range(self.n) if self.registered[k] and self.alive(k)]
        if self.case.get('amp') and reg:
            i = reg[i % len(reg)]       # hot-event cases: the handler dropped is one that is registered right now
        i %= self.n
        if self.kill(i, 0):
            self.flags['forgotten_between_operations'] += 1

    def op_reset(self, sel):
        """clear() while events are pending: with dispatching disabled the program has events queued whose arguments
        are handlers (a World queues the on_add / on_remove of handler components itself); clear() drops handlers
        and pending events alike, so once the program lets go of its references every former handler is gone - and
        nothing reaches anybody when dispatching is enabled again."""
        self.d.dispatch_enabled = False
        if self.mode == 1:
            for i in range(self.n):
                if not self.alive(i) and (i + sel) % 2 == 0:
                    self.op_add(i)                  # a new handler component: its on_add waits in the queue
            for i in range(self.n):
                if self.alive(i) and self.entity[i] is not None and (i + sel) % 3 == 0:
                    self.d.remove_component(self.entity[i], self.classes[i])    # its on_remove waits in the queue
                    self.entity[i] = None
                    self.registered[i] = False
        else:
            for i in range(self.n):
                if self.alive(i) and (i + sel) % 2 == 0:
                    self.d.dispatch(EVENTS[(i + sel) % 3], self.strong[i])      # an event whose argument is a handler
        was_alive = [self.alive(j) for j in range(self.n)]
        try:
            self.d.clear()
        except Exception as exc:
            self.viol('clear_raised', exception=repr(exc))
        for j in range(self.n):
            self.registered[j] = False
            self.entity[j] = None
            self.strong[j] = None
        self.scripts.clear()
        gc.collect()
        for j in range(self.n):
            if was_alive[j] and self.weak[j] is not None and self.weak[j]() is not None:
                self.viol('handler_kept_alive_after_last_reference_dropped', handler=j,
                          after='clear() while events were pending',
                          referrers=[type(r).__name__ for r in gc.get_referrers(self.weak[j]())][:6])
        self.quiet = True
        try:
            self.d.dispatch_enabled = True
        except PropertyViolation:
            raise
        except Exception as exc:
            self.viol('dispatch_raised', exception=repr(exc), after='clear() while events were pending')
        finally:
            self.quiet = False
        self.flags['clear_while_events_were_pending'] += 1
        for i in range(self.n):         # the program sets its scene up again (new handler objects)
            if self.case.get('reg', 0) >> i & 1:
                self.op_add(i)

    def op_gc(self):
        gc.collect()

    def op_arm(self, i, j, how):
        # prefer a registered killer and a registered victim other than the killer
        reg = [k for k in range(self.n) if self.registered[k] and self.alive(k)]
        i = reg[i % len(reg)] if reg else i % self.n
        others = [k for k in reg if k != i]
        j = others[j % len(others)] if others and j < 5 else j % self.n
        self.scripts[i] = (j, how)
        return i, j

    def op_strike(self, i, j, how, psel):
        i, j = self.op_arm(i, j, how)
        common = [e for e in EVENTS if e in self.classes[i].evs and e in self.classes[j % self.n].evs]
        self.op_dispatch(12 + EVENTS.index(common[psel % len(common)]) if common else psel % 12, psel)

    def op_deferred(self, evsel, psel):
        """the same event, postponed: disable, dispatch, then the enabling assignment delivers it."""
        self.op_dispatch(evsel, psel, deferred=True)

    def op_dispatch(self, evsel, psel, deferred=False):
        if self.case.get('amp') and not deferred and not getattr(self, '_bulk', False):
            # a hot event: the same dispatch many times over (every repetition judged like any dispatch)
            self._bulk = True
            try:
                for _ in range(self.case['amp'] - 1):
                    self.op_dispatch(evsel, psel)
            finally:
                self._bulk = False
            self.flags['hot_event'] += 1
        ev = EVENTS[evsel % 3]
        if evsel < 12:      # prefer events with several (else some) live registered listeners
            cnt = {e: sum(1 for k in range(self.n) if self.registered[k] and self.alive(k)
                          and e in self.classes[k].evs) for e in EVENTS}
            for least in (2, 1):
                cands = [e for e in EVENTS if cnt[e] >= least]
                if cands:
                    ev = cands[evsel % len(cands)]
                    break
        # odd selectors: generated permutation; even: slot order.  Always injected, so that a run is a pure
        # function of the case; if the injection does not take (order_used stays 0) the natural order applies
        self.perm = perm_of(self.n, psel // 2) if psel % 2 else list(range(self.n))
        start = [i for i in range(self.n) if self.registered[i] and self.alive(i) and ev in self.classes[i].evs]
        self.frame = {'ev': ev, 'calls': [], 'killed': set()}
        try:
            # every third dispatch carries keyword arguments as well
            kw = {'frame': self.step_ix, 'tag': None} if (evsel + psel) % 3 == 0 else {}
            if kw:
                self.flags['dispatch_with_keyword_arguments'] += 1
            if deferred:
                self.d.dispatch_enabled = False
                self.d.dispatch(ev, self.step_ix, **kw)
                if self.frame['calls']:
                    self.viol('callback_while_disabled', event=ev)
                self.flags['deferred_dispatch'] += 1
                self.d.dispatch_enabled = True
            else:
                self.d.dispatch(ev, self.step_ix, **kw)
        except PropertyViolation:
            raise
        except Exception as exc:
            self.viol('dispatch_raised', event=ev, exception=repr(exc), calls=self.frame['calls'],
                      deferred=deferred)
        frame, self.frame = self.frame, None
        self.perm = None
        counts = collections.Counter(frame['calls'])
        for i in start:
            n = counts.get(i, 0)
            ok = n in (0, 1) if i in frame['killed'] else n == 1
            if not ok:
                self.viol('surviving_registered_listener_reached_exactly_once', event=ev, handler=i, calls=n,
                          killed_during_dispatch=i in frame['killed'])
        for i, n in counts.items():
            if i not in start:
                self.viol('dispatch_reached_a_handler_that_is_gone_or_not_registered', event=ev, handler=i)
        self.flags['dispatch'] += 1
        if frame['killed']:
            self.flags['dispatch_with_death'] += 1

    def run(self):
        import sys
        OrderedSet.run = self
        desper.events.__dict__['set'] = OrderedSet
        unraisable = []
        old_hook = sys.unraisablehook

        def hook(u):
            # an exception inside a weak-reference callback / finalizer cannot propagate: the interpreter only reports
            # it.  When it comes out of the dispatcher's own clean-up of a dead handler, that clean-up has failed
            tb, inside = u.exc_traceback, False
            while tb is not None:
                if '/desper/' in tb.tb_frame.f_code.co_filename.replace('\\', '/'):
                    inside = True
                tb = tb.tb_next
            if inside:
                unraisable.append(repr(u.exc_value)[:200])
            else:
                old_hook(u)
        sys.unraisablehook = hook
        try:
            self.d = desper.World() if self.mode else desper.EventDispatcher()
            for i in range(self.n):
                if self.case.get('reg', 0) >> i & 1:
                    self.op_add(i)
            for self.step_ix, op in enumerate(self.case['ops']):
                getattr(self, 'op_' + op[0])(*op[1:])
                if self.pending_violation is not None:
                    raise self.pending_violation
            # closing sweep: everything forgotten is dead, every event still dispatches normally
            self.step_ix = len(self.case['ops'])
            for i in range(self.n):
                if self.strong[i] is None and self.entity[i] is None and self.weak[i] is not None:
                    if self.weak[i]() is not None:
                        gc.collect()
                    if self.weak[i]() is not None:
                        self.viol('handler_kept_alive_after_last_reference_dropped', handler=i)
            for e in range(3):
                self.op_dispatch(12 + e, 0)
            if self.pending_violation is not None:
                raise self.pending_violation
            if unraisable:
                self.viol('clean_up_of_a_dead_handler_failed_inside_the_dispatcher', exceptions=unraisable[:3])
        finally:
            sys.unraisablehook = old_hook
            self.closed = True          # finalizers that run after the case (world torn down) do nothing
            desper.events.__dict__.pop('set', None)
            OrderedSet.run = None
            self.scripts.clear()
        return self


def run_case(case):
    run = Run(case).run()
    f = run.flags
    classes = sorted(k for k, v in f.items() if v)
    classes.append('world_mode' if case['mode'] else 'dispatcher_mode')
    return {'nontrivial': bool(f['died_mid_dispatch_before_its_turn']), 'classes': classes,
            'steps': len(case['ops']), 'counters': {'schedule_control_used': run.order_used}}
