"""C12 - A handle loads its resource at most once between clears (DESIGN 3/C12)."""
import collections

import desper
from hypothesis import strategies as st

from vlib.core import PropertyViolation
from vlib import worldops

ID = 'C12'
LEVEL = 'exploration'
BUDGET = {'quick': 1500, 'thorough': 6000}
RULE = ('Hypothesis-generated histories over a small resource tree (root, sub-map, sub-sub-map, one layered map) '
        'of counting handles whose load() returns a FRESH object of a generated kind on every call (None, 0, 0.0, '
        'empty str/list/dict, False, NaN, objects whose __bool__ raises / __eq__ is always False / __eq__ '
        'raises, a World for world handles): accesses through every path - handle(), root[path], chained [], '
        'enclosing_map[suffix], get(path)(), a second registration of the same handle object in another map of the tree, a world description file in the same tree naming the resource as $res{a.b} (loaded through a new WorldFromFileHandle, or through the same one after clearing it), attribute and item chains and get() on static snapshots taken at '
        'generated moments, SimpleLoop.switch(handle, clear_current, clear_next) for world handles - '
        'interleaved with handle.clear() and with replacement of a handle in the map by a new one (the old handle '
        'stays in the program\'s hands and keeps being accessed) and with loads armed to FAIL once (load() raises, '
        'the program catches it and carries on: nothing was loaded, cached must say so and the next access '
        'loads). Oracle: per handle a cached flag, the current object and a load '
        'counter: every access returns the identical object as the first access since the last clear, load() '
        'runs exactly on the first access after construction/clear, handle.cached equals the model flag after '
        'every step. '
        'A bulk operation may create and load 70-1100 further handles. '
        ''
        'Resource kinds include a resource that is itself a Handle; two handles live under private-looking names (__hp). '
        'Non-trivial = a falsy/odd value accessed >= 2 times through >= 2 different access paths '
        'with a clear in between. Distinct = sha1 of canonical JSON.')
ASSUMPTIONS = [
    'names in the tree are identifiers that do not collide with members of the snapshot type',
    'singletons (None, 0, False, empty str) cannot show freshness by identity: the load counter decides',
]
FINDINGS = {}


class BoolRaises:
    def __bool__(self):
        raise RuntimeError('no truth value')


class EqFalse:
    def __eq__(self, other):
        return False

    def __hash__(self):
        return 1


class EqRaises:
    def __eq__(self, other):
        raise RuntimeError('not comparable')

    def __hash__(self):
        return 2


class InnerHandle(desper.Handle):
    """a resource that is itself a handle (a "next level" resource handing out the handle to switch to)"""

    def load(self):
        return ('inner resource', id(self))


KINDS = [
    ('handle', InnerHandle),
    ('none', lambda: None), ('zero', lambda: 0), ('zero_float', lambda: 0.0), ('empty_str', lambda: ''),
    ('empty_list', lambda: []), ('empty_dict', lambda: {}), ('false', lambda: False),
    ('nan', lambda: float('nan')), ('bool_raises', BoolRaises), ('eq_false', EqFalse), ('eq_raises', EqRaises),
    ('object', object),
]
# fixed tree layout: (path, is_world)
LAYOUT = [(['ha'], False), (['hb'], False), (['sub', 'hc'], False), (['sub', 'deep', 'hd'], False),
          (['sub', 'hw'], True), (['lay', 'hk'], False), (['hv'], True),
          # private-looking names (two leading underscores) are names like any other
          (['__hp'], False), (['sub', '__hq'], False),
          # a handle of the layered map that lives in the LOWER layer only (everything registered before the layer was
          # pushed does)
          (['lay', 'hl'], False)]
ACCESS = ['call', 'root_item', 'chained', 'enclosing', 'get_call', 'snap_attr', 'snap_item', 'snap_get', 'world_file', 'second_place']


class LoadFailed(Exception):
    """what a load() of the program under test raises when its file is missing"""


class Counting(desper.Handle):
    fail_next = False

    def __init__(self, run, ix, maker):
        self.run, self.ix, self.maker = run, ix, maker

    def load(self):
        if self.fail_next:
            # a load that fails (transient I/O error): nothing was loaded, the program catches it and carries on
            self.fail_next = False
            self.run.failed[self.ix] += 1
            raise LoadFailed(self.ix)
        self.run.loads[self.ix] += 1
        obj = self.maker()
        self.run.last_loaded[self.ix] = obj
        return obj


def decode_op(t):
    sel, p = t
    kind = ('access', 'access', 'access', 'access', 'access', 'access', 'clear', 'clear', 'snapshot', 'switch',
            'replace', 'orphan', 'failnext', 'bulk', 'cycle', 'cycle')[sel % 16]
    if kind == 'cycle':
        return ['cycle', p % 10, p // 10 % 10, p // 100 % 10]
    if kind == 'bulk':
        return ['bulk', p % 4]
    if kind == 'failnext':
        return ['failnext', p % 12]
    if kind == 'replace':
        return ['replace', p % 6]
    if kind == 'orphan':
        return ['orphan', p % 8]
    if kind == 'access':
        return ['access', p % 12, p // 12 % 10, p // 120 % 4]     # handle selectors >= 7: the handle touched last
    if kind == 'clear':
        return ['clear', p % 12]
    if kind == 'switch':
        return ['switch', p % 2, p // 2 % 2, p // 4 % 2]
    return ['snapshot']


def strategy():
    op = st.tuples(st.integers(0, 15), worldops.packed(12 * 10 * 4 * 3)).map(decode_op)
    return st.fixed_dictionaries({
        'kinds': st.lists(st.integers(0, len(KINDS) - 1), min_size=5, max_size=5),
        'ops': worldops.chunked(op, 40),
        # scale: 0, or the number of further handles a "bulk" operation creates in the tree and loads
        'amp': worldops.size_amp(none=50, sizes=(70, 130, 300, 1100))})


class Run:
    def __init__(self, case):
        self.case = case
        self.flags = collections.Counter()
        self.step_ix = -1
        n = len(LAYOUT)
        self.loads = [0] * n
        self.failed = collections.Counter()
        self.m_failed = collections.Counter()
        self.last_loaded = [None] * n
        self.m_cached = [False] * n
        self.m_obj = [None] * n
        self.m_loads = [0] * n
        self.paths_used = [set() for _ in range(n)]
        self.accesses_since = [0] * n
        self.cleared_between = [False] * n
        self.root = desper.ResourceMap()
        self.handles = []
        import itertools
        ki = itertools.cycle(case['kinds'])
        self.kind_name = []
        for ix, (path, is_world) in enumerate(LAYOUT):
            if is_world:
                maker, name = desper.World, 'world'
            else:
                name, maker = KINDS[next(ki) % len(KINDS)]      # (the five generated kinds are cycled through)
            h = Counting(self, ix, maker)
            self.handles.append(h)
            self.kind_name.append(name)
            self.root['/'.join(path)] = h
        # make 'lay' a layered map: an older handle shadowed under the same name
        lay = self.root.maps['lay']
        lay.handles.maps.insert(0, {})
        shadow = self.handles[5]
        older = Counting(self, 5, KINDS[0][1])
        lay.handles.maps[1]['hk'] = older
        lay.handles.maps[0]['hk'] = shadow
        self.snapshot = None
        self.last = 0
        self.orphans = []
        self.loop = desper.SimpleLoop(lambda: 0)

    def viol(self, clause, **d):
        d['step'] = self.step_ix
        d['op'] = self.case['ops'][self.step_ix] if 0 <= self.step_ix < len(self.case['ops']) else None
        raise PropertyViolation(clause, d)

    def expect_access(self, ix, got, how):
        """book one access to handle ix that returned ``got``."""
        if not self.m_cached[ix]:
            self.m_loads[ix] += 1
            self.m_cached[ix] = True
            if self.loads[ix] != self.m_loads[ix]:
                self.viol('load_did_not_run_exactly_once_on_first_access', handle=self.name(ix), how=how,
                          loads=self.loads[ix], expected=self.m_loads[ix], value=self.kind_name[ix])
            self.m_obj[ix] = self.last_loaded[ix]
            self.accesses_since[ix] = 0
        if self.loads[ix] != self.m_loads[ix]:
            self.viol('load_ran_again_although_cached', handle=self.name(ix), how=how, loads=self.loads[ix],
                      expected=self.m_loads[ix], value=self.kind_name[ix])
        if got is not self.m_obj[ix]:
            self.viol('access_returned_a_different_object', handle=self.name(ix), how=how, value=self.kind_name[ix])
        if isinstance(got, InnerHandle) and got.cached:
            self.viol('access_loaded_the_handle_that_is_the_resource', handle=self.name(ix), how=how)
        self.accesses_since[ix] += 1
        self.paths_used[ix].add(how)
        if (self.cleared_between[ix] and len(self.paths_used[ix]) >= 2 and self.accesses_since[ix] >= 2
                and self.kind_name[ix] not in ('object', 'world')):
            self.flags['odd_value_multi_path_after_clear'] += 1

    def pick(self, sel):
        if sel >= len(LAYOUT):
            return self.last
        self.last = sel
        return sel

    def name(self, ix):
        return LAYOUT[ix][0] if ix < len(LAYOUT) else 'replaced handle #%d' % ix

    def op_replace(self, slot):
        """assign a NEW handle to the key of a (non-world) handle; the old handle stays in the program's hands
        (an "orphan"): its cache is its own business - nobody called clear() on it."""
        ix = slot % 6
        if LAYOUT[ix][1]:
            ix = 0
        old = self.handles[ix]
        new_ix = len(self.handles)
        old.ix = new_ix
        self.handles.append(old)
        for arr in (self.loads, self.last_loaded, self.m_cached, self.m_obj, self.m_loads, self.accesses_since,
                    self.cleared_between, self.kind_name):
            arr.append(arr[ix])
        self.paths_used.append(set(self.paths_used[ix]))
        self.failed[new_ix], self.m_failed[new_ix] = self.failed[ix], self.m_failed[ix]
        self.failed[ix] = self.m_failed[ix] = 0
        h = Counting(self, ix, old.maker)
        self.handles[ix] = h
        self.loads[ix] = self.m_loads[ix] = self.accesses_since[ix] = 0
        self.last_loaded[ix] = self.m_obj[ix] = None
        self.m_cached[ix] = self.cleared_between[ix] = False
        self.paths_used[ix] = set()
        try:
            self.root['/'.join(LAYOUT[ix][0])] = h
        except Exception as exc:
            self.viol('setitem_raised', exception=repr(exc))
        self.snapshot = None            # an older snapshot legitimately keeps the old handle
        self.orphans.append(new_ix)
        self.flags['handle_replaced_in_the_map'] += 1
        if self.m_cached[new_ix]:
            self.flags['cached_handle_replaced_in_the_map'] += 1

    def op_bulk(self, how):
        """many other resources get loaded (a big level): nobody cleared the handles loaded before, they stay cached"""
        n = self.case.get('amp') or 0
        if not n or getattr(self, 'bulk_done', False):
            return
        self.bulk_done = True
        self.bulk = []
        for k in range(n):
            h = Counting(self, 0, object)
            h.load = (lambda hh=h: ('bulk resource', id(hh)))      # not counted in the books of handle 0
            self.root['bulk/h%d' % k] = h
            self.bulk.append(h)
        try:
            got = [(h() if how % 2 == 0 else self.root['bulk/h%d' % k]) for k, h in enumerate(self.bulk)]
            again = [h() for h in self.bulk]
        except Exception as exc:
            self.viol('access_raised', handle='bulk', how='call', exception=repr(exc))
        if any(a is not b for a, b in zip(got, again)):
            self.viol('access_returned_a_different_object', handle='bulk', how='call', value='tuple')
        self.snapshot = None
        self.flags['bulk_load'] += 1

    def op_failnext(self, sel):
        """the next load() of that handle raises (once)"""
        ix = self.pick(sel)
        if ix >= len(self.handles) or (ix < len(LAYOUT) and LAYOUT[ix][1]):
            return
        self.handles[ix].fail_next = True
        self.flags['load_armed_to_fail'] += 1

    def load_failed(self, ix, how):
        """an access raised LoadFailed: legitimate exactly when that access had to load and the load was armed"""
        self.m_failed[ix] += 1
        if self.m_cached[ix] or self.failed[ix] != self.m_failed[ix]:
            self.viol('load_ran_again_although_cached', handle=self.name(ix), how=how, failed_loads=self.failed[ix],
                      expected=self.m_failed[ix])
        # nothing was loaded: the model stays "not cached", the next access loads (check_flags compares cached)
        self.flags['access_whose_load_failed'] += 1
        self.after_failure = getattr(self, 'after_failure', set()) | {ix}

    def op_orphan(self, sel):
        """access a replaced handle directly"""
        if not self.orphans:
            return
        self.access_orphan(self.orphans[sel % len(self.orphans)])

    def access_orphan(self, ix):
        self.last = ix
        try:
            got = self.handles[ix]()
        except LoadFailed:
            return self.load_failed(ix, 'call')
        except Exception as exc:
            self.viol('access_raised', handle=self.name(ix), how='call', exception=repr(exc))
        self.expect_access(ix, got, 'call')
        self.flags['access_of_replaced_handle'] += 1

    def op_access(self, sel, how_ix, enc):
        ix = self.pick(sel)
        if ix >= len(LAYOUT):
            return self.access_orphan(ix)
        path, _w = LAYOUT[ix]
        how = ACCESS[how_ix]
        h = self.handles[ix]
        try:
            if how == 'call':
                got = h()
            elif how == 'root_item':
                got = self.root['/'.join(path)]
            elif how == 'chained':
                cur = self.root
                for nme in path:
                    cur = cur[nme]
                got = cur
            elif how == 'enclosing':
                k = enc % len(path)
                m = self.root
                for nme in path[:k]:
                    m = m.maps[nme]
                got = m['/'.join(path[k:])]
            elif how == 'get_call':
                got = self.root.get('/'.join(path))()
            elif how == 'world_file':
                got = self.via_world_file(ix, path)
            elif how == 'second_place':
                # the same handle object is registered a second time, in another map of the tree (shared content): it
                # is one handle with one cache, whichever way it is reached
                key = 'shared/' + '_'.join(path)
                if self.root.get(key) is not h:
                    self.root[key] = h
                    self.snapshot = None
                got = self.root[key]
            else:
                if self.snapshot is None:
                    self.snapshot = self.root.get_static_map()
                    self.flags['snapshot'] += 1
                cur = self.snapshot
                if how == 'snap_attr':
                    for nme in path:
                        cur = getattr(cur, nme)
                    got = cur
                elif how == 'snap_item':
                    for nme in path:
                        cur = cur[nme]
                    got = cur
                else:
                    for nme in path[:-1]:
                        cur = cur[nme]
                    hh = cur.get(path[-1])
                    if hh is not h:
                        self.viol('snapshot_get_returns_other_handle', handle=path)
                    got = hh()
        except PropertyViolation:
            raise
        except LoadFailed:
            return self.load_failed(ix, how)
        except Exception as exc:
            self.viol('access_raised', handle=path, how=how, exception=repr(exc), value=self.kind_name[ix])
        if ix in getattr(self, 'after_failure', ()):
            self.flags['access_after_a_failed_load'] += 1
        self.expect_access(ix, got, how)
        self.flags['access:' + how] += 1

    def via_world_file(self, ix, path):
        """one more way to reach a resource: a world description (JSON file) in the same tree names it as
        $res{a.b}; loading that world hands the resource to a component's constructor"""
        import json
        import os
        import tempfile
        import verif_fixtures as fx
        if self.tmpdir is None:
            self.tmpdir = tempfile.mkdtemp(prefix='desper-c12-')
        f = os.path.join(self.tmpdir, 'w%d.json' % ix)
        if not os.path.exists(f):
            with open(f, 'w') as fh:
                json.dump({'processors': [], 'entities': [{'components': [
                    {'type': 'verif_fixtures.PlainA', 'args': ['$res{%s}' % '.'.join(path)]}]}]}, fh)
        wfh = self.wfh.get(ix)
        if wfh is None or (self.step_ix + ix) % 4 == 0:
            wfh = self.wfh[ix] = desper.WorldFromFileHandle(f)      # a new, not yet loaded world handle
            self.root['wf/w%d' % ix] = wfh
        else:
            wfh.clear()                         # the same world handle, cleared: it loads the world again
            self.flags['world_file_reloaded_through_the_same_handle'] += 1
        world = wfh()
        comps = [c for _e, c in world.get(fx.PlainA)]
        if len(comps) != 1 or len(comps[0].args) != 1:
            self.viol('harness_world_file_access_found_no_component')
        return comps[0].args[0]

    def op_cycle(self, sel, how1, how2):
        """one handle reached by two paths, cleared, and reached by the same two paths the other way round"""
        if how1 == how2:
            how2 = (how2 + 1) % len(ACCESS)
        self.op_access(sel, how1, 1)
        self.check_flags()
        self.op_access(11, how2, 2)
        self.check_flags()
        self.op_clear(11)
        self.check_flags()
        self.op_access(11, how2, 1)
        self.check_flags()
        self.op_access(11, how1, 2)

    def op_clear(self, sel):
        ix = self.pick(sel)
        if ix >= len(self.handles):
            ix = 0
        try:
            self.handles[ix].clear()
        except Exception as exc:
            self.viol('clear_raised', exception=repr(exc))
        if self.m_cached[ix]:
            self.cleared_between[ix] = True
            self.flags['clear_cached'] += 1
        self.m_cached[ix] = False
        self.m_obj[ix] = None

    def op_snapshot(self):
        try:
            self.snapshot = self.root.get_static_map()
        except Exception as exc:
            self.viol('get_static_map_raised', exception=repr(exc))
        self.flags['snapshot'] += 1

    def op_switch(self, which, clear_current, clear_next):
        ix = 4 if which == 0 else 6
        h = self.handles[ix]
        cur = self.loop.current_world_handle
        cur_ix = None if cur is None else cur.ix
        try:
            self.loop.switch(h, bool(clear_current), bool(clear_next))
        except Exception as exc:
            self.viol('loop_switch_raised', exception=repr(exc))
        if clear_current and cur_ix is not None:
            if self.m_cached[cur_ix]:
                self.cleared_between[cur_ix] = True
            self.m_cached[cur_ix] = False
            self.m_obj[cur_ix] = None
        if clear_next:
            if self.m_cached[ix]:
                self.cleared_between[ix] = True
            self.m_cached[ix] = False
            self.m_obj[ix] = None
        self.expect_access(ix, self.loop.current_world, 'loop_switch')
        self.flags['switch'] += 1
        if clear_next or clear_current:
            self.flags['switch_with_clear'] += 1

    def check_flags(self):
        for ix, h in enumerate(self.handles):
            try:
                c = h.cached
            except Exception as exc:
                self.viol('cached_raised', exception=repr(exc))
            if bool(c) != self.m_cached[ix]:
                self.viol('cached_flag_differs', handle=self.name(ix), got=c, expected=self.m_cached[ix],
                          value=self.kind_name[ix])
            if self.loads[ix] != self.m_loads[ix]:
                self.viol('load_ran_without_an_access', handle=self.name(ix), loads=self.loads[ix],
                          expected=self.m_loads[ix])

    def run(self):
        self.tmpdir = None
        self.wfh = {}
        try:
            self.check_flags()
            for self.step_ix, op in enumerate(self.case['ops']):
                getattr(self, 'op_' + op[0])(*op[1:])
                self.check_flags()
            if self.case.get('amp') and not getattr(self, 'bulk_done', False):
                # scaled cases load their big level at the latest now; what was loaded before stays as it was
                self.step_ix = len(self.case['ops'])
                self.op_bulk(len(self.case['ops']))
                self.check_flags()
                for ix in range(len(LAYOUT)):
                    if self.m_cached[ix]:
                        self.op_access(ix, ix % 5, 1)
                        self.check_flags()
        finally:
            if self.tmpdir is not None:
                import shutil
                shutil.rmtree(self.tmpdir, ignore_errors=True)
        return self


def run_case(case):
    run = Run(case).run()
    f = run.flags
    return {'nontrivial': bool(f['odd_value_multi_path_after_clear']), 'classes': sorted(k for k, v in f.items() if v),
            'steps': len(case['ops'])}
