"""C19 - Controllers, references and prototypes are faithful shorthands (DESIGN 3/C19)."""
import abc
import collections
from fractions import Fraction

import desper
from hypothesis import strategies as st

from vlib.core import PropertyViolation
from vlib import worldops

ID = 'C19'
LEVEL = 'exploration'
BUDGET = {'quick': 1200, 'thorough': 5000}
RULE = ('The controller\'s entity may have a falsy identifier (0, empty string, empty tuple). Twin part: in half of the cases every reference attribute is read once BEFORE the shorthand is used, and after the shorthand (and the following frame) the world goes on changing through World calls (entities, processors added / replaced / removed, clear) and every ComponentReference / ProcessorReference attribute is read again: it answers what the World answers now, identically (same object). '
        'Each case has three parts. (a) TWIN WORLDS: a generated history (create / add / remove / delete / '
        'delete_now / process / add_processor / remove_processor) is applied to two fresh worlds with mirrored '
        'component pairs, a Controller subclass carrying ComponentReference / ProcessorReference descriptors is '
        'attached to a generated entity (variants: attached controller, bare desper.controller(entity, world), '
        'a plain ControllerProtocol object; the attached controller instance may have had a previous life in another world under an equal entity id, or under another entity of the same world); then one shorthand (add_component, remove_component, has_component, '
        'get_component, get_components, delete, reference get/set/del for components and processors) is used '
        'through the controller on world A and the corresponding World call on world B: results, exception '
        'types and the complete observable state of both worlds must correspond. (b) PROTOTYPES built with '
        'type(): 1-5 listed component types (duplicates and equal class names allowed), per type an independent '
        'choice of construction sources (init_methods entry, prefixed method, neither), custom prefixes, a '
        'subclass level overriding component_types / init_prefix / methods / init_methods; iterated twice; oracle '
        '= specification function. (c) OnUpdateProcessor with 0-5 on_update listeners and generated dt objects. '
        ''
        'In ~6% of the cases OnUpdateProcessor runs 70-1100 frames on a disabled world, is enabled, and runs as many frames enabled. '
        ''
        'Query types of the query shorthands include an ABC the component classes are registered with and the runtime-checkable protocols of the library; processors assigned through references may carry a priority of their own. '
        'Non-trivial = (a) >= 3 entities and the queried type matches >= 2 or 0 components of the controller\'s '
        'entity, or (b) >= 2 different construction sources together with a subclass override. Distinct = sha1 '
        'of canonical JSON.')
ASSUMPTIONS = [
    'dispatching stays enabled in the twin worlds (a controller learns its entity through on_add)',
    'reference assignments use values that satisfy the descriptor\'s own isinstance assertion',
    'prototype construction sources tag what they build; __name__ collisions are resolved as the docstring says '
    '(init_methods first)',
]
FINDINGS = {}


# ---- universe for the twin worlds ---------------------------------------------------------------------------
class CA:
    def __init__(self, tag):
        self.tag = tag

    def __repr__(self):
        return '<%s %s>' % (type(self).__name__, self.tag)


class CB(CA):
    pass


class CC(CA):
    pass


class CD(CB):
    pass


@desper.event_handler('on_add', 'on_remove')
class CH(CA):
    log = None

    def on_add(self, e, w):
        self.log.append(('on_add', self.tag, e))

    def on_remove(self, e, w):
        self.log.append(('on_remove', self.tag, e))


COMP = [CA, CB, CC, CD, CH]


class PA(desper.Processor):
    def __init__(self, tag=None):
        self.tag = tag

    def process(self, dt=1):
        pass


class PB(PA):
    priority = 2


class PC(desper.Processor):
    priority = -1

    def __init__(self, tag=None):
        self.tag = tag

    def process(self, dt=1):
        pass


PROC = [PA, PB, PC]


class Ctl(desper.Controller):
    tag = 'ctl'
    ref = [desper.ComponentReference(c) for c in COMP]
    pref = [desper.ProcessorReference(p) for p in PROC]

    def __repr__(self):
        return '<Ctl %s>' % self.tag


for _i, _c in enumerate(COMP):
    setattr(Ctl, 'ref%d' % _i, desper.ComponentReference(_c))
for _i, _p in enumerate(PROC):
    setattr(Ctl, 'pref%d' % _i, desper.ProcessorReference(_p))


class Proto:
    """a plain object implementing ControllerProtocol, with the same descriptors"""

    def __init__(self, entity, world):
        self.entity, self.world = entity, world


for _i, _c in enumerate(COMP):
    setattr(Proto, 'ref%d' % _i, desper.ComponentReference(_c))
for _i, _p in enumerate(PROC):
    setattr(Proto, 'pref%d' % _i, desper.ProcessorReference(_p))

class VirtualBase(abc.ABC):
    """an abstract base the component classes are only REGISTERED with (virtual subclasses)"""


VirtualBase.register(CA)
QTYPES = COMP + [VirtualBase, desper.ControllerProtocol, desper.EventHandler]

SHORTHANDS = ['add_component', 'remove_component', 'has_component', 'get_component', 'get_components', 'delete',
              'ref_get', 'ref_set', 'ref_del', 'pref_get', 'pref_set', 'pref_del']


def decode_op(t):
    sel, p = t
    d = [(p >> (4 * i)) & 15 for i in range(3)]
    kind = ('create', 'create', 'create', 'add', 'add', 'remove', 'delete', 'delete_now', 'process', 'addproc',
            'addproc', 'remproc')[sel % 12]
    return [kind, d[0], d[1], d[2]]


def decode_op2(t):
    sel, p = t
    d = [(p >> (4 * i)) & 15 for i in range(3)]
    kind = ('create', 'add', 'remove', 'delete_now', 'process', 'addproc', 'addproc', 'addproc', 'remproc', 'remproc',
            'clear', 'delete')[sel % 12]
    return [kind, d[0], d[1], d[2]]


def strategy():
    op = st.tuples(st.integers(0, 11), worldops.packed(16 ** 3)).map(decode_op)
    op2 = st.tuples(st.integers(0, 11), worldops.packed(16 ** 3)).map(decode_op2)
    twin = st.fixed_dictionaries({
        'ops': worldops.chunked(op, 24), 'ctl_entity': st.integers(0, 15), 'variant': st.integers(0, 2),
        'shorthand': st.integers(0, len(SHORTHANDS) - 1), 'type': st.integers(0, 7), 'after': st.integers(0, 3),
        'valmode': st.integers(0, 3).map(lambda k: (0, 1, 2, 1)[k]), 'prelife': st.integers(0, 2),
        # warm: every reference attribute is read once before the shorthand is used; ops2: what happens to the world
        # AFTER the shorthand was used (then every reference attribute is read again)
        'warm': st.integers(0, 1), 'ops2': worldops.chunked(op2, 8, chunk=4),
        # falsy: 0, or which falsy (and perfectly legal) identifier the controller's entity has: 0, '', ()
        'falsy': st.integers(0, 5).map(lambda k: k if k <= 3 else 0)})
    proto = st.fixed_dictionaries({
        'types': st.lists(st.integers(0, 5), min_size=1, max_size=5),
        'sources': st.lists(st.integers(0, 3), min_size=6, max_size=6),
        'prefix': st.integers(0, 2),
        'sub': st.integers(0, 63)})
    upd = st.fixed_dictionaries({'listeners': st.integers(0, 5), 'dts': st.lists(st.integers(0, 5), min_size=1,
                                                                                max_size=4),
                                 # scale: 0, or the number of frames of a long disabled and a long enabled run
                                 'amp': worldops.size_amp(none=60, sizes=(70, 130, 300, 1100))})
    return st.fixed_dictionaries({'twin': twin, 'proto': proto, 'upd': upd})


def viol(clause, **d):
    raise PropertyViolation(clause, d)


# ---- (a) twin worlds ----------------------------------------------------------------------------------------
class Side:
    def __init__(self):
        self.world = desper.World()
        self.log = []
        self.ids = []
        self.n = 0

    def comp(self, cix, tag):
        c = COMP[cix % len(COMP)](tag)
        if isinstance(c, CH):
            c.log = self.log
        return c


def apply_history(side, ops):
    w = side.world
    tagn = 0
    for kind, a, b, c in ops:
        tagn += 1
        tag = 't%d' % tagn
        target = side.ids[a % len(side.ids)] if side.ids else None
        if kind == 'create':
            comps = [side.comp(b, tag + 'a')] + ([side.comp(c, tag + 'b')] if c % 3 == 0 and c % 5 != b % 5 else [])
            side.ids.append(w.create_entity(*comps))
        elif kind == 'add' and target is not None:
            w.add_component(target, side.comp(b, tag))
        elif kind == 'remove' and target is not None:
            w.remove_component(target, COMP[b % len(COMP)])
        elif kind == 'delete' and target is not None and w.get_components(target):
            w.delete_entity(target)
        elif kind == 'delete_now' and target is not None and w.get_components(target):
            w.delete_entity(target, immediate=True)
        elif kind == 'process':
            w.process(1)
        elif kind == 'addproc':
            w.add_processor(PROC[b % len(PROC)](tag), priority=((c % 5) - 2) if c % 2 else None)
        elif kind == 'remproc':
            w.remove_processor(PROC[b % len(PROC)])
        elif kind == 'clear':
            w.clear()


def observe(side):
    w = side.world
    ids = list(side.ids) + ['never']
    out = {'entities': sorted(map(repr, w.entities)),
           'processors': [(type(p).__name__, getattr(p, 'tag', None), p.priority) for p in w.processors],
           'log': list(side.log)}
    for e in ids:
        out['e:%r' % (e,)] = {
            'components': [c.tag for c in w.get_components(e)],
            'exists': w.entity_exists(e),
            'has': [w.has_component(e, T) for T in COMP],
            'get': [getattr(w.get_component(e, T), 'tag', None) for T in COMP]}
    for T in COMP:
        out['get:' + T.__name__] = sorted((repr(e), c.tag) for e, c in w.get(T))
    for P in PROC:
        out['proc:' + P.__name__] = getattr(w.get_processor(P), 'tag', None)
    return out


def norm(x):
    """results correspond under the pair mapping: mirrored objects carry equal tags"""
    if isinstance(x, (CA, Ctl, PA, PC)):
        return ('obj', type(x).__name__, x.tag)
    if isinstance(x, (tuple, list)):
        return sorted((norm(i) for i in x), key=repr)
    return x


FALSY_IDS = [0, '', ()]


def twin_part(spec, facts):
    A, B = Side(), Side()
    if spec.get('falsy'):
        for side in (A, B):
            side.ids.append(side.world.create_entity(side.comp(1, 'falsy-id'),
                                                     entity_id=FALSY_IDS[spec['falsy'] - 1]))
        facts['controller_entity_with_a_falsy_id'] += 1
    apply_history(A, spec['ops'])
    apply_history(B, spec['ops'])
    if observe(A) != observe(B):
        viol('harness_twin_worlds_diverged_before_the_shorthand')     # would be a harness problem
    if not A.ids:
        A.ids.append(A.world.create_entity(A.comp(0, 'seed')))
        B.ids.append(B.world.create_entity(B.comp(0, 'seed')))
    k = 0 if spec.get('falsy') else spec['ctl_entity'] % len(A.ids)
    ent = A.ids[k]
    variant = spec['variant']
    ctlA, ctlB = Ctl(), Ctl()
    if variant == 0:
        prelife = spec.get('prelife', 0)
        if prelife:
            # the controller instance had a previous life: attached (and detached again) in ANOTHER world under
            # an entity id equal to the one it gets now, or in the same world under another entity
            for side, ctl in ((A, ctlA), (B, ctlB)):
                if prelife == 1:
                    other = desper.World()
                    other.create_entity(ctl, entity_id=ent)
                    if ctl.entity != ent or ctl.world is not other:
                        viol('attached_controller_knows_its_entity_and_world', where='previous life')
                    other.remove_component(ent, Ctl)
                else:
                    e0 = side.world.create_entity(ctl)
                    side.world.remove_component(e0, Ctl)
            facts['controller_with_a_previous_life_%d' % prelife] += 1
        A.world.add_component(ent, ctlA)
        B.world.add_component(B.ids[k], ctlB)
        if ctlA.entity != ent or ctlA.world is not A.world:
            viol('attached_controller_knows_its_entity_and_world', entity=repr(ctlA.entity), expected=repr(ent))
        user = ctlA
        facts['variant_attached_controller'] += 1
    elif variant == 1:
        user = desper.controller(ent, A.world)
        if user.entity != ent or user.world is not A.world or not isinstance(user, desper.Controller):
            viol('bare_controller_knows_its_entity_and_world')
        facts['variant_bare_controller'] += 1
    else:
        user = Proto(ent, A.world)
        facts['variant_protocol_object'] += 1
    if spec['after'] == 1 and variant == 0:
        # the controller outlives its attachment: shorthands keep addressing the entity it knew
        A.world.remove_component(ent, Ctl)
        B.world.remove_component(ent, Ctl)
        facts['controller_detached_before_use'] += 1
    elif spec['after'] == 2 and A.world.get_components(ent):
        A.world.delete_entity(ent)
        B.world.delete_entity(ent)
        facts['entity_pending_deletion'] += 1
    elif spec['after'] == 3:
        # the entity the controller knows owns nothing any more (every component removed one by one)
        for side in (A, B):
            for c in list(side.world.get_components(ent)):
                side.world.remove_component(ent, type(c))
        facts['entity_emptied_before_use'] += 1
    reader = user
    if variant == 1:
        reader = Ctl()          # (the plain Controller built by desper.controller() carries no descriptors)
        reader.entity, reader.world = ent, A.world

    def read_references(when):
        for i, P_ in enumerate(PROC):
            ra_ = call(lambda: getattr(reader, 'pref%d' % i))
            rb_ = call(lambda: B.world.get_processor(P_))
            if ra_[0] != rb_[0] or norm(ra_[1]) != norm(rb_[1]):
                viol('shorthand_result_differs_from_the_world_call', shorthand='pref_get', when=when,
                     type=P_.__name__, shorthand_result=repr(ra_), world_result=repr(rb_))
            if ra_[0] == 'ok' and ra_[1] is not None and ra_[1] is not A.world.get_processor(P_):
                viol('shorthand_result_differs_from_the_world_call', shorthand='pref_get', when=when,
                     type=P_.__name__, detail='not the processor the world holds now')
        for i, T_ in enumerate(COMP):
            ra_ = call(lambda: getattr(reader, 'ref%d' % i))
            rb_ = call(lambda: B.world.get_component(ent, T_))
            if ra_[0] != rb_[0] or norm(ra_[1]) != norm(rb_[1]):
                viol('shorthand_result_differs_from_the_world_call', shorthand='ref_get', when=when,
                     type=T_.__name__, shorthand_result=repr(ra_), world_result=repr(rb_))
            if ra_[0] == 'ok' and ra_[1] is not None and ra_[1] is not A.world.get_component(ent, T_):
                viol('shorthand_result_differs_from_the_world_call', shorthand='ref_get', when=when,
                     type=T_.__name__, detail='not the component the world holds now')

    def call(fn):
        try:
            return ('ok', fn())
        except AssertionError as exc:
            return ('raised', 'AssertionError')
        except Exception as exc:
            return ('raised', type(exc).__name__)

    if spec.get('warm'):
        read_references('before the shorthand is used')
        facts['references_read_before_the_shorthand'] += 1
    sh = SHORTHANDS[spec['shorthand']]
    if variant == 1 and 'ref' in sh:
        # the plain Controller built by desper.controller() carries no descriptors: use an unattached
        # instance of the subclass, set up the same way
        user = Ctl()
        user.entity, user.world = ent, A.world
    tix = spec['type'] % len(COMP)
    T = COMP[tix]
    # query types of the three query shorthands: also types related to the components only VIRTUALLY (an ABC with a
    # registered class, runtime-checkable protocols of the library itself) - whatever the World answers for them,
    # the shorthand answers the same
    QT = QTYPES[spec['type'] % len(QTYPES)]
    pix = spec['type'] % len(PROC)
    P = PROC[pix]
    wB = B.world
    matches = [c for c in A.world.get_components(ent) if isinstance(c, T)]
    if len(A.ids) >= 3 and (len(matches) >= 2 or not matches) and sh in (
            'remove_component', 'has_component', 'get_component', 'ref_get', 'ref_del'):
        facts['nontrivial_query'] += 1

    is_ctl = isinstance(user, desper.Controller)
    # the value assigned by add_component / ref_set: a new instance, or the very instance the entity already
    # holds under that exact type (re-adding it is still a replacement: removed, notified, added again)
    newA, newB = A.comp(tix, 'new'), B.comp(tix, 'new')
    if spec.get('valmode') == 1 and sh in ('add_component', 'ref_set'):
        heldA = [c for c in A.world.get_components(ent) if type(c) in COMP]
        heldB = [c for c in wB.get_components(ent) if type(c) in COMP]
        if heldA and len(heldA) == len(heldB):
            k2 = tix % len(heldA)
            newA, newB = heldA[k2], heldB[k2]
            T = type(newA)
            tix = COMP.index(T)
            facts['assign_the_instance_already_held'] += 1
    if sh == 'add_component':
        ra = call(lambda: user.add_component(newA) if is_ctl else desper.add_component(user, newA))
        rb = call(lambda: wB.add_component(ent, newB))
    elif sh == 'remove_component':
        ra = call(lambda: user.remove_component(T) if is_ctl else desper.remove_component(user, T))
        rb = call(lambda: wB.remove_component(ent, T))
    elif sh == 'has_component':
        ra = call(lambda: user.has_component(QT) if is_ctl else desper.has_component(user, QT))
        rb = call(lambda: wB.has_component(ent, QT))
        if QT not in COMP:
            facts['virtual_query_type'] += 1
    elif sh == 'get_component':
        ra = call(lambda: user.get_component(QT) if is_ctl else desper.get_component(user, QT))
        rb = call(lambda: wB.get_component(ent, QT))
        if QT not in COMP:
            facts['virtual_query_type'] += 1
    elif sh == 'get_components':
        ra = call(lambda: user.get_components() if is_ctl else desper.get_components(user))
        rb = call(lambda: wB.get_components(ent))
    elif sh == 'delete':
        ra = call(lambda: user.delete() if is_ctl else desper.delete(user))
        rb = call(lambda: wB.delete_entity(ent))
    elif sh == 'ref_get':
        ra = call(lambda: getattr(user, 'ref%d' % tix))
        rb = call(lambda: wB.get_component(ent, T))
    elif sh == 'ref_set':
        ra = call(lambda: setattr(user, 'ref%d' % tix, newA))
        rb = call(lambda: wB.add_component(ent, newB))
    elif sh == 'ref_del':
        ra = call(lambda: delattr(user, 'ref%d' % tix))
        rb = call(lambda: wB.remove_component(ent, T) and None)
    elif sh == 'pref_get':
        ra = call(lambda: getattr(user, 'pref%d' % pix))
        rb = call(lambda: wB.get_processor(P))
    elif sh == 'pref_set':
        # the value: a new instance; an instance carrying a priority of its own; or the very instance the world
        # already holds (whose priority was given when it was added) - assigning never touches the priority
        pa, pb = P('newp'), P('newp')
        vm = spec.get('valmode')
        if vm == 2:
            pa.priority = pb.priority = 7 - 2 * pix
            facts['assign_processor_with_own_priority'] += 1
        elif vm == 1:
            ha, hb = A.world.get_processor(P), wB.get_processor(P)
            if type(ha) is P and type(hb) is P:
                pa, pb = ha, hb
                facts['assign_the_processor_already_held'] += 1
        ra = call(lambda: setattr(user, 'pref%d' % pix, pa))
        rb = call(lambda: wB.add_processor(pb))
    else:
        ra = call(lambda: delattr(user, 'pref%d' % pix))
        rb = call(lambda: wB.remove_processor(P) and None)
    facts['shorthand:' + sh] += 1
    if ra[0] != rb[0] or norm(ra[1]) != norm(rb[1]):
        viol('shorthand_result_differs_from_the_world_call', shorthand=sh, type=T.__name__, via=type(user).__name__,
             shorthand_result=repr(ra), world_result=repr(rb))
    oa, ob = observe(A), observe(B)
    if oa != ob:
        diff = [k for k in oa if oa[k] != ob.get(k)]
        viol('shorthand_effect_differs_from_the_world_call', shorthand=sh, type=T.__name__, via=type(user).__name__,
             differing=diff[:4], a=repr([oa[k] for k in diff[:2]]), b=repr([ob[k] for k in diff[:2]]))
    # one more frame: deferred effects (delete) must correspond too
    # (a deferred delete of an entity that owns nothing makes the next process() raise KeyError - pinned by the
    # repository's tests - on both sides alike)
    pa, pb = call(lambda: A.world.process(1)), call(lambda: B.world.process(1))
    if pa != pb or observe(A) != observe(B):
        viol('shorthand_effect_differs_after_the_next_frame', shorthand=sh, a=repr(pa), b=repr(pb))
    # ... whatever the state of the world: the world goes on changing (not through the references), and every
    # reference attribute still answers what the World answers NOW
    if spec.get('ops2') and pa[0] == 'ok':
        read_references('after the shorthand was used')
        ra2 = call(lambda: apply_history(A, spec['ops2']))
        rb2 = call(lambda: apply_history(B, spec['ops2']))
        if ra2[0] != rb2[0] or observe(A) != observe(B):
            viol('harness_twin_worlds_diverged_after_the_shorthand', a=repr(ra2), b=repr(rb2))
        read_references('after the world changed again')
        facts['references_read_again_after_the_world_changed'] += 1
        if any(o[0] in ('addproc', 'remproc', 'clear') for o in spec['ops2']):
            facts['processors_changed_between_two_reads'] += 1


# ---- (b) prototypes -----------------------------------------------------------------------------------------
def make_types():
    def mk(name):
        def __init__(self, source='default'):
            self.source = source
        return type(name, (), {'__init__': __init__})
    return [mk('Alpha'), mk('Beta'), mk('Gamma'), mk('Twin'), mk('Twin'), mk('Delta')]


def proto_part(spec, facts):
    types = make_types()
    prefixes = ['init_', 'make', '_build_']
    listed = [types[i] for i in spec['types']]
    base_prefix = prefixes[spec['prefix']]

    def method_for(name, level):
        return lambda self, ct: ct('method:%s:%s' % (level, name))

    def func_for(ix, level):
        return lambda ct: ct('init_methods:%s:%d' % (level, ix))

    ns = {'component_types': tuple(listed), 'init_prefix': base_prefix}
    init_methods = {}
    used = set()
    for ix, t in enumerate(types):
        src = spec['sources'][ix]
        if src & 1:
            ns[base_prefix + t.__name__] = method_for(t.__name__, 'base')
        if src & 2:
            init_methods[t] = func_for(ix, 'base')
    ns['init_methods'] = init_methods
    Base = type('BaseProto', (desper.Prototype,), ns)
    cls = Base
    sub = spec['sub']
    override = False
    if sub & 1:
        ns2 = {}
        if sub & 2:
            ns2['component_types'] = tuple(reversed(listed)) + (types[5],)
            override = True
        if sub & 4:
            ns2['init_prefix'] = prefixes[(spec['prefix'] + 1) % 3]
            override = True
        if sub & 8:
            pre = ns2.get('init_prefix', base_prefix)
            ns2[pre + 'Alpha'] = method_for('Alpha', 'sub')
            ns2[pre + 'Twin'] = method_for('Twin', 'sub')
            override = True
        if sub & 16:
            ns2['init_methods'] = {types[1]: func_for(1, 'sub'), types[4]: func_for(4, 'sub')}
            override = True
        cls = type('SubProto', (Base,), ns2)

    def spec_source(t):
        """reference: init_methods entry, else the method named prefix + type name if defined, else default"""
        sub_defines_table = cls is not Base and 'init_methods' in cls.__dict__
        table = cls.__dict__['init_methods'] if sub_defines_table else Base.__dict__['init_methods']
        if t in table:
            return 'init_methods:%s:%d' % ('sub' if sub_defines_table else 'base', types.index(t))
        name = cls.init_prefix + t.__name__
        if cls is not Base and name in cls.__dict__:
            return 'method:sub:%s' % t.__name__
        if name in Base.__dict__:
            return 'method:base:%s' % t.__name__
        return 'default'

    proto = cls()
    first = None
    for round_ in range(2):
        try:
            comps = list(proto)
        except Exception as exc:
            viol('iterating_a_prototype_raised', exception=repr(exc))
        want_types = list(cls.component_types)
        if [type(c) for c in comps] != want_types:
            viol('prototype_yields_one_component_per_listed_type_in_order', got=[type(c).__name__ for c in comps],
                 expected=[t.__name__ for t in want_types])
        for c, t in zip(comps, want_types):
            want = spec_source(t)
            used.add(want.split(':')[0])
            if c.source != want:
                viol('prototype_component_built_by_the_wrong_source', type=t.__name__, got=c.source, expected=want)
        if first is not None and any(a is b for a in first for b in comps):
            viol('prototype_components_must_be_new_objects_on_every_iteration')
        first = comps
    if len(used) >= 2 and override:
        facts['prototype_mixed_sources_with_override'] += 1
    if len(set(spec['types'])) < len(spec['types']):
        facts['prototype_duplicate_types'] += 1


# ---- (c) OnUpdateProcessor ----------------------------------------------------------------------------------
def upd_part(spec, facts):
    log = []

    @desper.event_handler('on_update')
    class L:
        def __init__(self, ix):
            self.ix = ix

        def on_update(self, *a):
            log.append((self.ix, a))

    w = desper.World()
    w.add_processor(desper.OnUpdateProcessor())
    keep = [L(i) for i in range(spec['listeners'])]
    for l in keep:
        w.create_entity(l)
    for k in spec['dts']:
        dt = [0, 1, 0.016, Fraction(1, 60), object(), -1][k]
        del log[:]
        try:
            w.process(dt)
        except Exception as exc:
            viol('on_update_processor_raised', exception=repr(exc))
        if sorted(i for i, _a in log) != list(range(spec['listeners'])):
            viol('on_update_relayed_exactly_once_to_every_listener', got=[i for i, _a in log])
        if any(len(a) != 1 or a[0] is not dt for _i, a in log):
            viol('on_update_carries_the_frames_dt', dt=repr(dt), got=repr(log[:2]))
    facts['on_update_listeners:%d' % spec['listeners']] += 1
    n = spec.get('amp') or 0
    if n and keep:
        # a world that keeps running while its dispatching is disabled (a level left for a menu): many frames, then
        # it is enabled again - every listener is told about every one of those frames, once and in order; then a
        # long enabled run
        del log[:]
        dts = [Fraction(k, 8) for k in range(n)]
        w.dispatch_enabled = False
        for dt in dts:
            w.process(dt)
        if log:
            viol('on_update_delivered_while_dispatching_is_disabled', got=repr(log[:2]))
        w.dispatch_enabled = True
        for i in range(len(keep)):
            got = [a[0] for j, a in log if j == i and len(a) == 1]
            if len(got) != n or any(x is not y for x, y in zip(got, dts)):
                viol('on_update_relayed_exactly_once_to_every_listener', listener=i, frames=n, received=len(got),
                     first_received=repr(got[:1]), after='a disabled period')
        del log[:]
        for dt in dts:
            w.process(dt)
        for i in range(len(keep)):
            got = [a[0] for j, a in log if j == i and len(a) == 1]
            if len(got) != n or any(x is not y for x, y in zip(got, dts)):
                viol('on_update_relayed_exactly_once_to_every_listener', listener=i, frames=n, received=len(got))
        facts['many_frames'] += 1


def run_case(case):
    facts = collections.Counter()
    twin_part(case['twin'], facts)
    proto_part(case['proto'], facts)
    upd_part(case['upd'], facts)
    nontrivial = facts['nontrivial_query'] or facts['prototype_mixed_sources_with_override']
    return {'nontrivial': bool(nontrivial), 'classes': sorted(k for k, v in facts.items() if v),
            'steps': len(case['twin']['ops'])}
