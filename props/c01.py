"""C01 - World queries always agree on who owns which component (DESIGN 3/C01)."""
from vlib import worldops

ID = 'C01'
LEVEL = 'exploration'
BUDGET = {'quick': 1500, 'thorough': 6000}
RULE = ('Hypothesis-generated histories (<= 40 ops: create/add/replace/remove/delete/delete_now/process/clear/'
        'toggle; newly attached handler components may be armed so that their first on_add/on_remove issues another '
        'World operation re-entrantly: deferred delete of the own entity, removing itself, deleting / stripping / '
        'extending another entity, disabling dispatching) over a generated class DAG (3-8 recorder classes, multiple inheritance; some classes falsy, some with value equality - all their instances equal, hashable or not), ids automatic or '
        'explicit (ints inside the automatic range, str, tuple, bool/float aliases); after EVERY step all seven '
        'queries are compared with a dict-of-dicts reference model for every class and every id ever used plus '
        'two unused ids; two invariants (an entity that owns nothing does not exist; entities and entity_exists agree) are also evaluated from inside every lifecycle callback. '
        'A small share of the histories is AMPLIFIED: one operation, each operation or the whole history repeated 70-1100 times (sizes around 64/128/256/1024), full comparison at ~12 points and at the end. '
        ''
        'Further generator dimensions: classes defined in the middle of the history, handlers whose __events__ lives on the instance, lean handler classes (only the declared callbacks exist), a base type the classes are only registered with (ABC.register: the queries must agree about it). '
        'Non-trivial = >= 2 mutating steps and at least one of: replacement of an existing '
        'exact type, removal, deferred delete followed by process, automatic id requested after an explicit '
        'int id was used. Distinct = sha1 of the canonical JSON of the case.')
ASSUMPTIONS = [
    'result order of get/entities/get_components is not compared (multisets of identities)',
    'an explicit id passed to create_entity either owns nothing at that moment, or (merge operation) owns components '
    'of OTHER exact types than the new ones - then the entity may end up with old and new components or with the '
    'new ones only, whichever get_components tells, and every other query must agree with it; one create call never '
    'gets two components of one exact type; an instance is attached to one entity at a time',
    'an id whose row vanished while its deletion was pending is not re-populated before the next process()',
    'a mutating operation that raises ends the case (counted as op_raised): C05/C02 judge those',
]
WEIGHTS = {'create': 6, 'add': 8, 'remove': 5, 'delete': 3, 'delete_now': 2, 'process': 3, 'clear': 1,
           'toggle': 1, 'revive': 2, 'merge': 2}
FINDINGS = {}
FUZZ_RUNS = 20000      # thorough tier: coverage-guided stage (vlib/fuzz.py), when atheris is installed


def strategy():
    return worldops.case_strategy(WEIGHTS)


def run_case(case):
    run = worldops.Run(case, checks={'queries'})
    try:
        run.run()
    except worldops.PropertyViolation as v:
        v.info = worldops.info_from(run, False)
        raise
    f = run.flags
    mutating = sum(f[k] for k in ('auto_id', 'explicit_id', 'replace', 'remove', 'delete', 'delete_now',
                                  'clear', 'reattach_instance'))
    nontrivial = mutating >= 2 and (f['replace'] or f['remove'] or f['deferred_delete_processed']
                                    or f['auto_after_explicit_int'])
    return worldops.info_from(run, nontrivial)
