"""C13 - World switching delivers in/out events to the worlds that run (DESIGN 3/C13)."""
import collections

import desper
from hypothesis import strategies as st

from vlib.core import PropertyViolation
from vlib import worldops

ID = 'C13'
LEVEL = 'exploration'
BUDGET = {'quick': 1500, 'thorough': 5000}
RULE = ('Hypothesis-generated frame scripts over 2-4 recording WorldHandle subclasses (each load builds, with '
        'dispatching disabled as WorldHandle.load does, a world with recording processors before/after, '
        'OnUpdateProcessor, a scripted actor processor, a CoroutineProcessor running a scripted coroutine, and a '
        'listener component for on_add, on_world_load, on_switch_in, on_switch_out, on_update, probe, and two further on_update listeners (whichever is served first acts; after a switch request no other listener of that broadcast may run); every other '
        'handle loads a World subclass whose instances are falsy; or all handles load a World subclass with value '
        'equality - equal-but-distinct worlds) run by a '
        'SimpleLoop on a generated clock: per frame one of nothing / switch(h, clear_current, clear_next) / raise '
        'SwitchWorld(h, ...) / dispatch a probe to another (possibly left) world, issued from a processor, from '
        'an on_update callback or from a coroutine; targets include the current handle, cached and not yet '
        'loaded. Oracle = trace invariants over (instance, event) and (instance, process) records: frame '
        'abandoned after a request, next iteration processes the instance the target handle yields, one '
        'on_switch_out in the instance left, one on_switch_in in the instance entered after its load-time '
        'callbacks and held events and before its first process, a left world hears nothing while away, clear '
        'flags yield fresh instances, no in/out events for raise SwitchWorld. '
        'After the run the caller may make a left world current again itself (loop.switch(handle)): it is no longer silenced and what it held has been delivered, in order, when switch returns. Probes are also sent to instances whose handle was cleared meanwhile; a coroutine may kill itself before it asks for the switch. '
        'Non-trivial = >= 2 switches incl. a '
        'clear flag combined with switch(), a self-switch, or a return to a left world with held events. '
        'Distinct = sha1 of canonical JSON.')
ASSUMPTIONS = [
    'the (from, to) arguments of on_switch_in/out are compared with the real instances only when no clear flag '
    'is used (with a flag the statement fixes the receiving instance, not the argument)',
    'the number of load() calls is recorded but not asserted',
    'switch() is called with from_world=None (default loop) or with the current world',
    'probes are dispatched from outside the loop frame bodies only through the scripted actors',
    'which of the three on_update listeners of a world is served first follows the library\'s set order (object '
    'addresses): the verdict on a tree where the property holds does not depend on it',
]
SOURCES = ['processor', 'on_update', 'coroutine']


def finding_self_switch_clear_current(case, v):
    return (v.clause == 'on_switch_in_delivered_once_in_the_entered_instance'
            and v.tags.get('request_kind') == 'switch' and v.tags.get('clear_current')
            and v.tags.get('self_switch') and not v.tags.get('clear_next'))


FINDINGS = {}     # no open finding: R15 was repaired (see KNOWN_FINDINGS.txt); the predicate above is kept as an example


def decode_frame(p):
    k = p % 8
    p //= 8
    if k == 0:
        return ['nothing']
    if k in (1, 2):
        return ['probe', p % 8]
    kind = 'switch' if k < 6 else 'raise'
    return [kind, p % 4, p // 4 % 4 == 0, p // 16 % 4 == 0, SOURCES[p // 64 % 3], p // 192 % 2, p // 384 % 2]


def strategy():
    fr = worldops.packed(8 * 4 * 4 * 4 * 3 * 2 * 2).map(decode_frame)
    return st.fixed_dictionaries({'handles': st.integers(2, 4), 'frames': worldops.chunked(fr, 16, chunk=4),
                                  # which World classes the handles load: 0 plain/falsy alternating, 1 value-equal
                                  # worlds, 2 value-equal and value-equal-and-falsy, 3 all plain
                                  'worlds': st.integers(0, 3),
                                  # reenter: after the run, the caller itself makes a world that was left (and is
                                  # holding its events) current again with loop.switch(handle): 0 no, 1-3 which one
                                  'reenter': st.integers(0, 3)})


class Rec(desper.Processor):
    def __init__(self, run, name):
        self.run, self.name = run, name

    def process(self, dt):
        self.run.log.append(('P', self.run.inst_of[id(self.world)], self.name))


class RecBefore(Rec):
    pass


class RecAfter(Rec):
    pass


class Actor(Rec):
    def process(self, dt):
        Rec.process(self, dt)
        self.run.act('processor', self.world)


@desper.event_handler('on_add', 'on_world_load', 'on_switch_in', 'on_switch_out', 'on_update', 'probe', 'on_quit')
class Listener:
    def __init__(self, run):
        self.run = run
        self.world = None

    def _rec(self, name, args):
        self.run.log.append(('E', self.run.inst_of.get(id(self.world), None), name, args))

    def on_add(self, entity, world):
        self.world = world
        self._rec('on_add', (entity, world))

    def on_world_load(self, *a):
        self._rec('on_world_load', a)

    def on_switch_in(self, *a):
        self._rec('on_switch_in', a)

    def on_switch_out(self, *a):
        self._rec('on_switch_out', a)

    def probe(self, *a):
        self._rec('probe', a)

    def on_quit(self, *a):
        self._rec('on_quit', a)

    def on_update(self, dt):
        self._rec('on_update', (dt,))
        self.run.act('on_update', self.world)


@desper.event_handler('on_update')
class Extra:
    """further on_update listeners of the same world: whichever listener is served first acts; once it asked for the
    switch the frame is abandoned, so no other listener of that broadcast runs any more"""
    def __init__(self, run, world, k):
        self.run, self.world, self.k = run, world, k

    def on_update(self, dt):
        self.run.log.append(('P', self.run.inst_of[id(self.world)], 'on_update listener %d' % self.k))
        self.run.act('on_update', self.world)


class EmptyLookingWorld(desper.World):
    """a legal World subclass whose instances are falsy objects (think __len__ = number of living things)"""

    def __bool__(self):
        return False


class ValueWorld(desper.World):
    """a legal World subclass with value semantics (think of levels that are equal when their names are): every
    instance equals every other one - equal-but-distinct worlds are distinct worlds all the same"""

    def __eq__(self, other):
        return isinstance(other, ValueWorld)

    def __ne__(self, other):
        return not isinstance(other, ValueWorld)

    def __hash__(self):
        return 3


class EmptyLookingValueWorld(ValueWorld):
    def __bool__(self):
        return False


WORLD_KINDS = {0: (desper.World, EmptyLookingWorld), 1: (ValueWorld, ValueWorld),
               2: (ValueWorld, EmptyLookingValueWorld), 3: (desper.World, desper.World)}


class RecWorldHandle(desper.WorldHandle):
    def __init__(self, run, ix):
        super().__init__()
        self.run, self.ix = run, ix
        self.transform_functions.append(self.populate)

    def load(self):
        cls = WORLD_KINDS[self.run.case.get('worlds', 0)][self.ix % 2]
        if cls is desper.World:
            return super().load()
        # same steps as WorldHandle.load, for a World subclass (WorldHandle builds desper.World itself)
        world = cls()
        world.dispatch_enabled = False
        for transform_function in self.transform_functions:
            transform_function(self, world)
        world.dispatch('on_world_load', self, world)
        return world

    def populate(self, handle, world):
        run = self.run
        inst = len(run.instances)
        run.instances.append(world)
        run.inst_of[id(world)] = inst
        run.handle_of_inst[inst] = self.ix
        run.log.append(('L', inst, self.ix))
        run.loads[self.ix] += 1
        world.add_processor(RecBefore(run, 'before'), priority=-5)
        world.add_processor(desper.OnUpdateProcessor(), priority=-3)
        world.add_processor(Actor(run, 'actor'), priority=0)
        cp = desper.CoroutineProcessor()
        world.add_processor(cp, priority=3)
        world.add_processor(RecAfter(run, 'after'), priority=5)
        lst = Listener(run)
        lst.world = world
        world.create_entity(lst)
        for k in (1, 2):
            world.create_entity(Extra(run, world, k))
        world._cp, world._gen = cp, run.coroutine(world)
        cp.start(world._gen)


class Run:
    def __init__(self, case):
        self.case = case
        self.log = []
        self.instances = []
        self.inst_of = {}
        self.handle_of_inst = {}
        self.loads = collections.Counter()
        self.flags = collections.Counter()
        self.g = -1
        self.acted = set()
        self.tags = {}

    def viol(self, clause, **d):
        raise PropertyViolation(clause, d, tags=dict(self.tags))

    def coroutine(self, world):
        while True:
            self.log.append(('P', self.inst_of[id(world)], 'coroutine'))
            self.act('coroutine', world)
            yield

    def clock(self):
        self.g += 1
        if self.g >= len(self.case['frames']):
            raise desper.Quit()
        cur = self.loop.current_world
        self.log.append(('F', self.g, self.inst_of.get(id(cur)), self.handles.index(self.loop.current_world_handle),
                         [h.cached for h in self.handles]))
        return float(self.g)

    def act(self, source, world):
        g = self.g
        if g in self.acted or not (0 <= g < len(self.case['frames'])):
            return
        fr = self.case['frames'][g]
        if fr[0] == 'nothing':
            return
        if fr[0] == 'probe':
            if source != 'processor':
                return
            self.acted.add(g)
            # operand values < 6 prefer a cached world other than the current one (a left world)
            others = [x for x in self.handles if x.cached and x is not self.loop.current_world_handle]
            cur_world = self.loop.current_world
            stale = [x for x in self.instances if x is not cur_world and not any(
                hh.cached and hh() is x for hh in self.handles)]
            if fr[1] >= 6 and stale:
                # an instance that was left and whose handle was cleared meanwhile (the program still holds a
                # reference to it): it is never entered again, whatever is dispatched to it stays with it
                w = stale[fr[1] % len(stale)]
                self.flags['probe_to_a_discarded_instance'] += 1
            else:
                h = others[fr[1] % len(others)] if others and fr[1] < 6 else self.handles[fr[1] % len(self.handles)]
                if not h.cached:
                    return
                w = h()
            token = ('token', g)
            self.log.append(('D', self.inst_of[id(w)], token))
            w.dispatch('probe', token)
            return
        kind, target, cc, cn, src, explicit_from = fr[:6]
        if src != source:
            return
        self.acted.add(g)
        if source == 'coroutine' and len(fr) > 6 and fr[6]:
            # the coroutine kills itself (its last act) and then asks for the switch
            try:
                world._cp.kill(world._gen)
                self.flags['switch_requested_by_a_coroutine_that_killed_itself'] += 1
            except ValueError:
                pass
        th = self.handles[target % len(self.handles)]
        cached_before = self.inst_of[id(th())] if th.cached else None
        cur_handle = self.handles.index(self.loop.current_world_handle)
        self.log.append(('R', g, kind, th.ix, bool(cc), bool(cn), self.inst_of[id(world)], source, cached_before,
                         cur_handle))
        if kind == 'switch':
            desper.switch(th, clear_current=bool(cc), clear_next=bool(cn), from_world=world if explicit_from else None)
        raise desper.SwitchWorld(th, clear_current=bool(cc), clear_next=bool(cn))

    def run(self):
        self.handles = [RecWorldHandle(self, i) for i in range(self.case['handles'])]
        self.loop = desper.SimpleLoop(self.clock)
        old = desper.default_loop
        desper.default_loop = self.loop
        try:
            self.loop.switch(self.handles[0])
            try:
                self.loop.start()
            except PropertyViolation:
                raise
            except Exception as exc:
                self.viol('loop_raised', exception=repr(exc), frame=self.g)
            self.judge()
            if self.case.get('reenter'):
                self.reenter()
        finally:
            desper.default_loop = old
        return self

    def reenter(self):
        """...holds its events until it is entered again: entering by a plain loop.switch(handle) between two runs
        counts - the world is no longer silenced and what it held is delivered (in order) by the time switch returns"""
        cands = [h for h in self.handles if h.cached and h is not self.loop.current_world_handle
                 and not h().dispatch_enabled]
        if not cands:
            return
        h = cands[self.case['reenter'] % len(cands)]
        w = h()
        inst = self.inst_of[id(w)]
        tokens = [('token', 'held until the manual entry', k) for k in range(2)]
        for t in tokens:
            w.dispatch('probe', t)
        mark = len(self.log)
        try:
            self.loop.switch(h)
        except Exception as exc:
            self.viol('loop_switch_raised', exception=repr(exc))
        if self.loop.current_world is not w or self.loop.current_world_handle is not h:
            self.viol('current_world_is_the_instance_the_target_handle_yields', after='loop.switch between two runs')
        got = [x[3][0] for x in self.log[mark:] if x[0] == 'E' and x[1] == inst and x[2] == 'probe']
        if not w.dispatch_enabled or [t for t in got if t in tokens] != tokens:
            self.viol('held_events_delivered_in_order_when_the_world_is_entered_again', entered_by='loop.switch',
                      still_silenced=not w.dispatch_enabled, got=repr(got)[:200])
        self.flags['left_world_entered_again_by_loop_switch'] += 1

    # ---- trace oracle -------------------------------------------------------------------------------
    def judge(self):
        log = self.log
        muted = set()
        held = collections.defaultdict(list)
        loaded_at = {}
        last_r = None           # (index, entry)
        entering = None
        switches = 0
        for i, e in enumerate(log):
            t = e[0]
            if t == 'L':
                loaded_at[e[1]] = i
            elif t == 'D':
                if e[1] in muted:
                    held[e[1]].append(e[2])
                    self.flags['probe_to_left_world'] += 1
            elif t == 'R':
                last_r = (i, e)
            elif t == 'P':
                if last_r is not None:
                    self.tag_request(last_r[1])
                    self.viol('frame_abandoned_after_a_switch_request', ran=e[2], instance=e[1], request=list(last_r[1]))
            elif t == 'E':
                if e[2] == 'probe' and e[1] in muted and last_r is None:
                    self.viol('left_world_received_an_event_while_away', instance=e[1], token=repr(e[3]))
            elif t == 'F':
                if last_r is not None:
                    self.check_switch(last_r, i, e, muted, held, loaded_at)
                    switches += 1
                    last_r = None
                cur = e[2]
                # every processor call of this iteration belongs to the current instance
                j = i + 1
                while j < len(log) and log[j][0] not in ('F', 'R'):
                    if log[j][0] == 'P' and log[j][1] != cur:
                        self.viol('process_called_on_an_instance_that_is_not_current', frame=e[1], instance=log[j][1],
                                  current=cur)
                    j += 1
        self.flags['switches'] = switches

    def tag_request(self, r):
        _t, g, kind, target, cc, cn, from_inst, source, cached_before, cur_handle = r
        self.tags = {'request_kind': kind, 'clear_current': cc, 'clear_next': cn, 'self_switch': target == cur_handle,
                     'source': source}

    def check_switch(self, last_r, fi, f, muted, held, loaded_at):
        ri, r = last_r
        _t, g, kind, target, cc, cn, from_inst, source, cached_before, cur_handle = r
        self.tag_request(r)
        entered = f[2]
        window = self.log[ri + 1:fi]
        self.flags['request:' + kind] += 1
        self.flags['source:' + source] += 1
        if f[3] != target:
            self.viol('next_iteration_runs_the_target_handle', frame=g, target=target, current_handle=f[3])
        if entered is None or self.handle_of_inst.get(entered) != target:
            self.viol('current_world_is_the_instance_the_target_handle_yields', frame=g, entered=entered)
        if self.handles[target].cached and self.inst_of[id(self.handles[target]())] != entered and False:
            pass
        self_switch = target == cur_handle
        if self_switch:
            self.flags['self_switch'] += 1
        if cn:
            self.flags['clear_next'] += 1
            if cached_before is not None and entered == cached_before:
                self.viol('clear_next_must_enter_a_fresh_instance', frame=g, entered=entered)
        if cc:
            self.flags['clear_current'] += 1
            if self_switch:
                if entered == from_inst:
                    self.viol('clear_current_must_yield_a_fresh_instance_of_the_left_handle', frame=g)
            elif f[4][cur_handle]:
                self.viol('clear_current_must_yield_a_fresh_instance_of_the_left_handle', frame=g,
                          left_handle_still_cached=True)
        if not cn and not (cc and self_switch):
            if cached_before is not None and entered != cached_before:
                self.viol('cached_target_world_must_be_entered_as_is', frame=g, entered=entered, cached=cached_before)
        if (cc or cn) and kind == 'switch':
            self.flags['clear_flag_with_switch_function'] += 1
        ins = [(k, x) for k, x in enumerate(window) if x[0] == 'E' and x[2] == 'on_switch_in']
        outs = [(k, x) for k, x in enumerate(window) if x[0] == 'E' and x[2] == 'on_switch_out']
        if kind == 'raise':
            if ins or outs:
                self.viol('raise_SwitchWorld_owes_no_in_out_events', frame=g, events=[(x[1], x[2]) for _k, x in ins + outs])
        else:
            out_here = [x for _k, x in outs if x[1] == from_inst]
            if len(out_here) != 1 or len(outs) != 1:
                self.viol('on_switch_out_delivered_once_in_the_instance_left', frame=g, left=from_inst,
                          got=[x[1] for _k, x in outs])
            in_here = [(k, x) for k, x in ins if x[1] == entered]
            if len(in_here) != 1 or len(ins) != 1:
                self.viol('on_switch_in_delivered_once_in_the_entered_instance', frame=g, entered=entered,
                          got=[x[1] for _k, x in ins], clear_current=cc, clear_next=cn, self_switch=self_switch)
            kin = in_here[0][0]
            for k, x in enumerate(window):
                if x[0] == 'E' and x[1] == entered and x[2] in ('on_add', 'on_world_load', 'probe') and k > kin:
                    self.viol('on_switch_in_only_after_load_time_callbacks_and_held_events', frame=g,
                              late=x[2], instance=entered)
            if not cc and not cn:
                a = in_here[0][1][3]
                b = out_here[0][3]
                want = (self.instances[from_inst], self.instances[entered])
                if len(a) != 2 or a[0] is not want[0] or a[1] is not want[1]:
                    self.viol('on_switch_in_arguments_are_the_worlds_left_and_entered', frame=g)
                if len(b) != 2 or b[0] is not want[0] or b[1] is not want[1]:
                    self.viol('on_switch_out_arguments_are_the_worlds_left_and_entered', frame=g)
        # held events of the entered instance: delivered now, in order
        got_tokens = [x[3][0] for x in window if x[0] == 'E' and x[1] == entered and x[2] == 'probe']
        if entered in muted:
            if got_tokens != held[entered]:
                self.viol('held_events_delivered_in_order_when_the_world_is_entered_again', frame=g,
                          got=repr(got_tokens), expected=repr(held[entered]))
            if held[entered]:
                self.flags['returned_to_left_world_with_held_events'] += 1
            held[entered] = []
        for x in window:
            if x[0] == 'E' and x[2] == 'probe' and x[1] in muted and x[1] != entered:
                self.viol('left_world_received_an_event_while_away', instance=x[1])
        muted.discard(entered)
        if kind == 'switch' and from_inst != entered:
            muted.add(from_inst)
        self.tags = {}


def run_case(case):
    run = Run(case).run()
    f = run.flags
    nontrivial = f['switches'] >= 2 and (f['clear_flag_with_switch_function'] or f['self_switch']
                                         or f['returned_to_left_world_with_held_events'])
    return {'nontrivial': bool(nontrivial), 'classes': sorted(k for k, v in f.items() if v and k != 'switches'),
            'steps': len(case['frames']), 'counters': {'world_loads': sum(run.loads.values())}}
