"""C09 - Coroutine lifecycle: state, kill, restart and promise are coherent (DESIGN 3/C09)."""
import collections
import gc
import weakref
from fractions import Fraction

import desper
from desper import CoroutineState
from hypothesis import strategies as st

from vlib.core import PropertyViolation
from vlib import worldops

ID = 'C09'
LEVEL = 'exploration'
BUDGET = {'quick': 5000, 'thorough': 10000}
RULE = ('Hypothesis-generated histories: 1-4 coroutine scripts whose steps are (actions, outcome) with actions in '
        '{start j, kill j (also itself), query state j} and outcome in {yield None/0/negative, yield positive '
        'multiple of 1/8, return v, raise}; external operations start i / kill i (processor or promise) / state i / '
        'process dt / the three calls on non-generators / forget i (harness drops its strong references, keeps '
        'weakrefs). Oracle: reference model per generator (TERMINATED | ACTIVE | PAUSED(remaining), script '
        'position, expected promise value) stepped alongside; the execution log is validated entry by entry, '
        'state()/promise.state compared after every external step and at every in-body query. '
        'In ~10% of the cases every script exists in 90-200 copies (waits scaled differently), external start / kill act on the copies (kills spare every fifth) and ten closing frames follow. '
        ''
        'A finished generator may be started again; a body may raise once (tail: released within two frames); the program may drop a generator and keep only its promise. '
        'Non-trivial = a '
        'kill followed by a start of the same generator with no process in between, or a kill/start issued from '
        'inside a body, or a kill of a paused coroutine. Distinct = sha1 of canonical JSON.')
ASSUMPTIONS = [
    'a body that kills itself keeps running until its next yield (a generator cannot be pre-empted)',
    'a generator (re)started from inside a frame, not yet run in that frame, may get a step in that frame or '
    'only in the next one',
    'a generator that already returned may be started again from outside (it is released at its next turn without '
    'running anything); operations on such a generator from inside bodies are not generated',
    'a body may raise once (user code failing): the frame is abandoned, and after that only "the finished '
    'generator is released within two frames, kill of it raises ValueError, later frames do not fail" is judged; '
    'CPython reference counting for the release clause',
    'dt and waits are multiples of 1/8 (exact in binary floating point)',
]
FINDINGS = {}
FUZZ_RUNS = 30000      # thorough tier: coverage-guided stage (vlib/fuzz.py), when atheris is installed
T, A, P = CoroutineState.TERMINATED, CoroutineState.ACTIVE, CoroutineState.PAUSED
YIELDS = [None, 0, -1, 1, 1, 2, 0.5, 4]       # 1 twice: equal deadlines of several coroutines are frequent
DTS = [0, 0.5, 0.5, 1, 0.125, 0.25, 2, 0.5]


def decode_step(p):
    nact = (0, 0, 1, 1, 1, 2)[p % 6]
    p //= 6
    acts = []
    for _ in range(nact):
        acts.append([('start', 'kill', 'kill', 'state')[p % 4], p // 4 % 4])
        p //= 16
    o = p % 11
    p //= 11
    # 'x': the body raises (user code failing) - the history ends with a short tail, see Run.after_body_raised
    out = ['r', p % 3] if o == 9 else (['x'] if (o == 10 and p % 3 == 0) else ['y', YIELDS[o % len(YIELDS)]])
    return {'acts': acts, 'out': out}


def decode_op(t):
    sel, p = t
    kind = ('process', 'process', 'process', 'process', 'start', 'start', 'restart', 'kill', 'kill', 'pkill', 'state',
            'forget', 'nongen', 'restart', 'process', 'ambush')[sel % 16]
    if kind == 'process':
        return ['process', DTS[p % 8]]
    if kind == 'nongen':
        return ['nongen', p % 3, p // 3 % 4]
    return [kind, p]


def strategy():
    step = worldops.packed(6 * 256 * 11 * 3).map(decode_step)
    op = st.tuples(st.integers(0, 15), st.integers(0, 15)).map(decode_op)
    return st.fixed_dictionaries({
        'scripts': st.lists(st.lists(step, min_size=1, max_size=5), min_size=1, max_size=4),
        'ops': worldops.chunked(op, 40),
        # population scale: 0, or the number of coroutines the generated scripts are multiplied up to (external
        # start / kill then act on every copy of the chosen coroutine: dozens of kills pending at one frame)
        'amp': worldops.size_amp(none=40, sizes=(90, 129, 150, 200)),
        # tie mode: every positive wait is 1, so that several coroutines share one wake-up time
        'sync': st.booleans()})


class BodyFailed(Exception):
    """raised by a coroutine body of the program under test"""


class EndOfCase(Exception):
    pass


class Run:
    tail = False
    raised_in = None

    def __init__(self, case):
        self.case = case
        self.scripts = list(case['scripts'])
        self.nbase = len(self.scripts)
        self.copies = 1
        if case.get('amp'):
            self.copies = case['amp']
            self.scripts = self.scripts * self.copies
        self.n = len(self.scripts)
        self.proc = desper.CoroutineProcessor()
        self.flags = collections.Counter()
        self.step_ix = -1
        self.gens = [self.body(i) for i in range(self.n)]
        self.wgens = [weakref.ref(g) for g in self.gens]
        self.promises = [None] * self.n
        self.wpromises = [None] * self.n
        self.forgotten = [False] * self.n
        self.state = [T] * self.n
        self.remaining = [None] * self.n
        self.pos = [0] * self.n
        self.finished = [False] * self.n
        self.zombie = [False] * self.n      # finished generators that were started again (nothing left to run)
        self.retval = [None] * self.n
        self.ever_started = [False] * self.n
        # release bookkeeping: None, or a dict describing when the dead generator must be gone
        self.ghost = [None] * self.n
        self.in_frame = False
        self.ran = set()
        self.due = set()
        self.killed_in_frame = set()
        self.startable_in_frame = set()
        self.current = None
        self.killed_since_process = set()
        self.inject = None

    def viol(self, clause, **d):
        d['step'] = self.step_ix
        d['op'] = self.case['ops'][self.step_ix] if 0 <= self.step_ix < len(self.case['ops']) else None
        d['model_states'] = [s.name for s in self.state]
        raise PropertyViolation(clause, d)

    # ---- generator bodies ---------------------------------------------------------------------------
    def body(self, i):
        script = self.scripts[i]
        if self.case.get('sync'):
            script = [dict(st_, out=(['y', 1] if st_['out'][0] == 'y' and st_['out'][1] is not None
                                     and st_['out'][1] > 0 else st_['out'])) for st_ in script]
        for s, step in enumerate(script):
            self.on_step(i, s)
            if self.inject is not None and not self.tail:
                # (armed by the ambush operation: the first body that runs in the frame starts the coroutine that was
                # killed while it waited)
                act, self.inject = self.inject, None
                if act[1] != i and self.state[act[1]] == T and self.gens[act[1]] is not None:
                    self.do(act[0], act[1], inside=i)
                    self.flags['killed_waiting_coroutine_started_from_inside_a_body'] += 1
            for act in step['acts']:
                self.do(act[0], act[1] % self.n, inside=i)
            if step['out'][0] == 'x' and not self.tail:
                self.raised_in = i
                self.user_error = BodyFailed(i)
                self.flags['body_raised'] += 1
                raise self.user_error
            if step['out'][0] == 'x':
                return None
            if step['out'][0] == 'r':
                # returned objects: a unique tuple, the falsy int 0, a fresh empty list (identity is checked)
                val = [('ret', i, s), 0, []][step['out'][1] % 3]
                self.on_return(i, val)
                return val
            y = step['out'][1]
            if self.copies > 1 and y is not None and y > 0:
                y = y * (1 + (i // self.nbase) % 7)     # the copies of one coroutine do not all wait equally long
            self.on_yield(i, y)
            yield y
        self.on_step(i, len(script))
        self.on_return(i, None)
        return None

    def on_step(self, i, s):
        if self.tail:
            return
        if not self.in_frame:
            self.viol('coroutine_body_ran_outside_process', coroutine=i)
        if i in self.ran:
            self.viol('coroutine_advanced_twice_in_one_frame', coroutine=i)
        if self.state[i] != A:
            self.viol('body_ran_although_not_active', coroutine=i, model=self.state[i].name,
                      killed_this_frame=i in self.killed_in_frame)
        if i not in self.due and i not in self.startable_in_frame:
            self.viol('body_ran_in_a_frame_in_which_it_was_not_due', coroutine=i)
        if s != self.pos[i]:
            self.viol('resumed_at_wrong_step', coroutine=i, got=s, expected=self.pos[i])
        self.ran.add(i)
        self.pos[i] = s + 1
        self.current = i

    def on_yield(self, i, y):
        if self.tail:
            return
        if self.state[i] == T:          # killed itself during this step
            if y is not None and y > 0:
                self.ghost[i] = {'remaining': Fraction(y), 'frames': None}
            else:
                self.ghost[i] = {'remaining': None, 'frames': 1}
        elif y is not None and y > 0:
            self.state[i] = P
            self.remaining[i] = Fraction(y)
            self.flags['paused'] += 1
        self.current = None

    def on_return(self, i, val):
        if self.tail:
            return
        self.state[i] = T
        self.finished[i] = True
        self.retval[i] = val
        self.ghost[i] = {'remaining': None, 'frames': 0}
        self.current = None
        self.flags['returned'] += 1

    # ---- operations (from outside: inside=None; from a body: inside=i) ---------------------------------
    def do(self, kind, j, inside=None):
        where = 'inside' if inside is not None else 'outside'
        if self.tail:
            g = self.gens[j]
            try:
                # (the generator whose body raised is finished: finished generators are never started again)
                if g is not None and kind != 'state' and not (kind == 'start' and (j == self.raised_in
                                                                                   or self.finished[j])):
                    (self.proc.start if kind == 'start' else self.proc.kill)(g)
            except (ValueError, TypeError):
                pass
            return
        if self.zombie[j] and inside is not None:
            # whether an exhausted-but-restarted generator has already been released in this very frame depends on
            # the order inside the frame: operations on it from inside bodies are not generated
            self.flags['excluded_inside_op_on_restarted_finished_generator'] += 1
            return
        if kind == 'state':
            self.check_state(j, where)
            return
        g = self.gens[j]
        if g is None:
            return
        if kind == 'start':
            if self.finished[j] and (inside is not None or self.state[j] != T):
                self.flags['excluded_start_of_finished'] += 1
                if self.state[j] == T:
                    return
            if self.finished[j] and self.state[j] == T:
                # a generator that already returned is handed to start() again: legal; it is booked as running
                # until its next turn, in which nothing runs (it is exhausted) and it is released - with a
                # promise of its own whose value is None
                self.zombie[j] = True
                self.retval[j] = None
                self.flags['finished_generator_started_again'] += 1
            if self.state[j] != T:
                try:
                    self.proc.start(g)
                except ValueError:
                    self.flags['start_running_valueerror'] += 1
                except Exception as exc:
                    self.viol('start_of_running_generator_raised_other_than_ValueError', exception=repr(exc))
                else:
                    self.viol('start_of_running_generator_did_not_raise_ValueError', coroutine=j, where=where,
                              model=self.state[j].name)
                self.check_state(j, where)
                return
            try:
                pr = self.proc.start(g)
            except Exception as exc:
                self.viol('start_of_terminated_generator_raised', coroutine=j, where=where, exception=repr(exc),
                          killed_since_last_process=j in self.killed_since_process)
            if j in self.killed_since_process:
                self.flags['kill_then_start_without_process'] += 1
            if self.ever_started[j]:
                self.flags['restart'] += 1
            if inside is not None:
                self.flags['start_from_inside'] += 1
                if j not in self.ran:
                    self.startable_in_frame.add(j)
            self.state[j] = A
            self.remaining[j] = None
            self.ghost[j] = None
            self.ever_started[j] = True
            if not self.forgotten[j]:
                self.promises[j] = pr
            self.wpromises[j] = weakref.ref(pr)
            if pr.generator is not g or pr.processor is not self.proc:
                self.viol('promise_does_not_describe_the_started_generator')
            pr = None
            self.check_state(j, where)
        elif kind in ('kill', 'pkill'):
            use_promise = kind == 'pkill' and self.promises[j] is not None
            target = self.promises[j].kill if use_promise else (lambda: self.proc.kill(g))
            if self.state[j] == T:
                try:
                    target()
                except ValueError:
                    self.flags['kill_terminated_valueerror'] += 1
                except Exception as exc:
                    self.viol('kill_of_terminated_generator_raised_other_than_ValueError', exception=repr(exc))
                else:
                    self.viol('kill_of_terminated_generator_did_not_raise_ValueError', coroutine=j, where=where)
                self.check_state(j, where)
                return
            try:
                target()
            except Exception as exc:
                self.viol('kill_of_running_generator_raised', coroutine=j, where=where, exception=repr(exc),
                          model=self.state[j].name)
            if self.state[j] == P:
                self.flags['kill_paused'] += 1
                self.ghost[j] = {'remaining': self.remaining[j], 'frames': None}
            else:
                self.ghost[j] = {'remaining': None, 'frames': 1}
            if inside is not None:
                self.flags['kill_from_inside'] += 1
                if inside == j:
                    self.flags['self_kill'] += 1
                    self.ghost[j] = None        # set by on_yield / on_return of this very step
            self.state[j] = T
            self.zombie[j] = False
            self.killed_since_process.add(j)
            if self.in_frame:
                self.killed_in_frame.add(j)
                self.startable_in_frame.discard(j)
            self.check_state(j, where)
        g = None

    def check_state(self, j, where):
        g = self.gens[j]
        pr = self.promises[j]
        if (g is None and pr is None) or self.tail:
            return
        want = self.state[j]
        if g is not None:
            try:
                got = self.proc.state(g)
            except Exception as exc:
                self.viol('state_raised', exception=repr(exc))
            if got != want:
                self.viol('state_differs_from_lifecycle', coroutine=j, where=where, got=getattr(got, 'name', got),
                          expected=want.name, finished=self.finished[j])
        g = None
        if pr is not None:
            try:
                pstate = pr.state
            except Exception as exc:
                self.viol('promise_state_raised', coroutine=j, exception=repr(exc),
                          generator_held_by_the_program=self.gens[j] is not None)
            if pstate != want:
                self.viol('promise_state_differs', coroutine=j, got=pstate.name, expected=want.name)
            if self.finished[j]:
                if pr.value is not self.retval[j]:
                    self.viol('promise_value_is_not_the_returned_object', coroutine=j, got=repr(pr.value),
                              expected=repr(self.retval[j]))
            elif pr.value is not None:
                self.viol('promise_value_set_before_return', coroutine=j, got=repr(pr.value))

    def op_process(self, dt):
        self.in_frame = True
        self.ran = set()
        self.killed_in_frame = set()
        self.startable_in_frame = set()
        self.due = set()
        for i in range(self.n):
            if self.state[i] == A:
                self.due.add(i)
            elif self.state[i] == P:
                self.remaining[i] -= Fraction(dt)
                if self.remaining[i] <= 0:
                    self.state[i] = A
                    self.remaining[i] = None
                    self.due.add(i)
        try:
            self.proc.process(dt)
        except PropertyViolation:
            raise
        except Exception as exc:
            if exc is not getattr(self, 'user_error', None):
                self.viol('process_raised', exception=repr(exc))
            body_failed = True
        else:
            body_failed = False
        finally:
            self.in_frame = False
        if body_failed:
            # (outside the except clause: the exception and its traceback - which refer to the generator's frame -
            # are gone by now)
            self.user_error = None
            return self.after_body_raised()
        for i in self.due:
            if self.zombie[i]:
                if i in self.ran:
                    self.viol('exhausted_generator_ran_a_step', coroutine=i)
                if i not in self.killed_in_frame:
                    self.zombie[i] = False
                    self.state[i] = T
                    self.ghost[i] = {'remaining': None, 'frames': 0}
                continue
            if i not in self.ran and i not in self.killed_in_frame:
                self.viol('active_coroutine_not_advanced_in_frame', coroutine=i)
        self.killed_since_process = set()
        self.flags['process'] += 1
        # release clause
        for i in range(self.n):
            gh = self.ghost[i]
            if gh is None or self.state[i] != T:
                continue
            if i in self.killed_in_frame or i in self.ran:
                # terminated during this very frame (or still stepped in it): its next turn, or the first frame
                # counting towards its wait, is the next frame.  A finished generator has nothing to wait for.
                if gh['frames'] != 0:
                    continue
            if gh['remaining'] is not None:
                gh['remaining'] -= Fraction(dt)
                if gh['remaining'] <= 0:
                    gh['remaining'] = None
                    gh['frames'] = 0
            elif gh['frames'] is not None and gh['frames'] > 0:
                gh['frames'] -= 1
            if gh['frames'] == 0 and self.forgotten[i]:
                self.check_released(i)
        for i in range(self.n):
            self.check_state(i, 'after process')

    def after_body_raised(self):
        """A body raised and the frame was abandoned.  The generator is finished (it can never run again): it must be
        released no later than the frame in which it would next have run, and the bookkeeping must not make the
        following frames fail.  Nothing else is judged after this point."""
        self.tail = True
        i = self.raised_in
        for k in range(2):
            self.in_frame = True
            try:
                self.proc.process(0)
            except Exception as exc:
                self.viol('process_fails_after_a_body_raised', frames_later=k + 1, exception=repr(exc))
            finally:
                self.in_frame = False
        g = self.gens[i]
        if g is not None:
            try:
                st_ = self.proc.state(g)
            except Exception as exc:
                self.viol('state_raised', exception=repr(exc))
            if st_ != T:
                self.viol('finished_coroutine_still_booked_as_running', coroutine=i, state=getattr(st_, 'name', st_),
                          note='its body raised two frames ago')
            try:
                self.proc.kill(g)
            except ValueError:
                pass
            except Exception as exc:
                self.viol('kill_of_terminated_generator_raised_other_than_ValueError', exception=repr(exc))
            else:
                self.viol('kill_of_terminated_generator_did_not_raise_ValueError', coroutine=i, where='tail')
        g = None
        self.gens[i] = None
        self.promises[i] = None
        self.user_error = None
        if self.wgens[i]() is not None:
            gc.collect()
        if self.wgens[i]() is not None:
            self.viol('finished_or_killed_generator_not_released', coroutine=i, finished=True,
                      referrers=[type(r).__name__ for r in gc.get_referrers(self.wgens[i]())][:5])
        self.flags['tail_after_a_body_raised'] += 1
        raise EndOfCase()

    def check_released(self, i):
        if self.wgens[i]() is not None:
            gc.collect()
        if self.wgens[i]() is not None:
            self.viol('finished_or_killed_generator_not_released', coroutine=i, finished=self.finished[i],
                      referrers=[type(r).__name__ for r in gc.get_referrers(self.wgens[i]())][:5])
        self.flags['release_checked'] += 1

    def op_forget(self, i):
        keep_promise = (i // self.n) % 2 == 1
        i %= self.n
        if self.forgotten[i] or not self.ever_started[i]:
            return
        if keep_promise and self.promises[i] is not None and self.gens[i] is not None:
            # the program drops the generator but keeps the promise (`p = proc.start(f())`): state and value stay
            # available through the promise, which is all the program has left
            self.gens[i] = None
            self.flags['generator_dropped_promise_kept'] += 1
            return
        if self.gens[i] is None:
            return
        self.forgotten[i] = True
        self.gens[i] = None
        self.promises[i] = None
        self.flags['forget'] += 1
        gh = self.ghost[i]
        if self.state[i] == T and gh is not None and gh['frames'] == 0:
            self.check_released(i)

    def pick(self, kind, sel):
        """operand values < 12 prefer a coroutine for which the call is legal (start: terminated and not
        finished, kill: running); larger values pick any coroutine (error paths)."""
        if sel < 12 and kind in ('start', 'kill', 'pkill'):
            if kind == 'start':
                c = [i for i in range(self.n) if self.state[i] == T and not self.finished[i] and self.gens[i]]
            else:
                c = [i for i in range(self.n) if self.state[i] != T and self.gens[i]]
            if c:
                return c[sel % len(c)]
        return sel % self.n

    def op_nongen(self, which, val):
        bad = [42, 'gen', None, (lambda: None)][val]
        fn = [self.proc.start, self.proc.kill, self.proc.state][which]
        try:
            fn(bad)
        except TypeError:
            self.flags['nongen_typeerror'] += 1
        except Exception as exc:
            self.viol('non_generator_raised_other_than_TypeError', exception=repr(exc))
        else:
            self.viol('non_generator_accepted', call=fn.__name__, value=repr(bad))

    def run(self):
        for self.step_ix, op in enumerate(self.case['ops']):
            if op[0] == 'process':
                self.op_process(op[1])
            elif op[0] == 'forget':
                self.op_forget(op[1])
            elif op[0] == 'nongen':
                self.op_nongen(op[1], op[2])
            elif op[0] == 'ambush':
                # a WAITING coroutine is killed from outside; in the next frame the first body that runs starts it
                # again (its pending kill is revoked) - and goes on with its own step, waits included
                c = [i for i in range(self.n) if self.state[i] == P and self.gens[i] and not self.finished[i]
                     and not self.zombie[i]]
                if c and any(self.state[i] == A for i in range(self.n)):
                    j = c[op[1] % len(c)]
                    self.do('kill', j)
                    self.inject = ['start', j]
                    self.op_process(DTS[op[1] % 8])
                    self.inject = None
            elif op[0] == 'restart':
                # kill immediately followed by start (no frame in between), preferably of a PAUSED coroutine
                c = [i for i in range(self.n) if self.state[i] == P and self.gens[i]]
                j = c[op[1] % len(c)] if c and op[1] < 12 else self.pick('kill', op[1])
                self.do('kill', j)
                self.do('start', j)
            elif self.copies > 1:
                j0 = self.pick(op[0], op[1]) % self.nbase
                paused_before = sum(1 for x in self.state if x == P)
                for c in range(self.copies):
                    if op[0] != 'start' and c % 5 == 4:
                        continue                    # every fifth copy is spared by kills
                    self.do(op[0], j0 + c * self.nbase)
                self.flags['amplified_population'] += 1
                if op[0] != 'start' and paused_before - sum(1 for x in self.state if x == P) >= 64:
                    self.flags['mass_kill_of_paused_coroutines'] += 1
            else:
                self.do(op[0], self.pick(op[0], op[1]))
            for i in range(self.n):
                self.check_state(i, 'after step')
        if self.copies > 1:
            # large populations: some more frames, so that whoever is still waiting gets the time to wake up
            for k in range(10):
                self.step_ix = len(self.case['ops']) + k
                self.op_process(DTS[k % len(DTS)] or 1)
                for i in range(self.n):
                    self.check_state(i, 'after closing frame')
        return self


def run_case(case):
    run = Run(case)
    try:
        run.run()
    except EndOfCase:
        pass
    finally:
        for g in run.gens:
            if g is not None:
                try:
                    g.close()
                except Exception:
                    pass
    f = run.flags
    nontrivial = f['kill_then_start_without_process'] or f['kill_from_inside'] or f['start_from_inside'] \
        or f['kill_paused']
    return {'nontrivial': bool(nontrivial), 'classes': sorted(k for k, v in f.items() if v),
            'steps': len(case['ops'])}
