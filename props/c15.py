"""C15 - A loaded world contains exactly what its description says (DESIGN 3/C15)."""
import collections
import copy
import json
import os
import shutil
import tempfile

import desper
from hypothesis import strategies as st

import verif_fixtures as fx
from vlib.core import PropertyViolation
from vlib import worldops

ID = 'C15'
LEVEL = 'exploration'
BUDGET = {'quick': 1200, 'thorough': 4000}
RULE = ('Explicit identifiers include 1, 2, 3 (the values the automatic numbering hands out), listed before the first entity without identifier. Resource handles return a FRESH object per load. Processor types include two types derived from another listed type. '
        'Component types include two sibling subclasses of desper.Controller, each decorated with ONE further event and defining only that callback; which callbacks a type is owed is written down in the fixtures (DECLARED_EVENTS), never read back from __events__. '
        'Hypothesis-generated world descriptions: 0-4 processors and 0-5 entities with 0-4 components, types from '
        'an importable fixture module (handler and plain components recording *args/**kwargs), optional ids (str, '
        'negative int, int >= 10**6), args/kwargs from a pool of JSON values (nested containers, numbers, '
        'booleans, null, near-miss strings such as "$", "$x{a}", " ${a}", "a$res{b}", "${}") plus top-level '
        'references ${mod.attr} (also to falsy objects: 0, None, False, empty list, empty string), $res{p.q}, '
        '$handle{p.q} to fixture names and to paths of a generated resource '
        'tree. Two drivers: populate_world_from_dict on a dict with real types, and WorldFromFileHandle on a JSON '
        'file in a per-case temp dir with the handle stored under a key of depth 1-3 (loaded, cleared, resources '
        'replaced and loaded again; in some cases user code fails once - a described constructor or the load of a '
        'referenced resource raises - and the program asks the same handle again). Oracle: reference '
        'interpretation of the description (processor types in order after the defaults, entities by id or '
        'unique tag, constructor arguments equal / references identical, dispatching disabled and no callback '
        'on return, after enabling on_add then on_world_load once per handler component with the real entity, '
        'world and handle). '
        'In ~9% of the cases the entities are repeated up to 64-260 (big worlds). '
        ''
        'Half of the cases run with another key delimiter (ResourceMap.split_char set to a colon or a bar); two resource keys contain a closing brace. '
        'Non-trivial = >= 2 entities and references of >= 2 kinds, or a world handle stored '
        'at depth >= 2 that uses $res/$handle. Distinct = sha1 of canonical JSON.')
ASSUMPTIONS = [
    'marker-prefixed strings with trailing text and marker strings nested inside containers are not generated '
    '(the statement covers whole-string arguments only)',
    'explicit ids stay outside the automatic id range (collisions are C01\'s subject)',
    'component types distinct within an entity, processor types distinct',
]
FINDINGS = {}

VALUES = [None, True, False, 0, -1.5, 7, 'plain', '', '$', '$x{a}', ' ${verif_fixtures.CONST_A}', 'a$res{r1}', '{}',
          '${}', '$res{}', '$handle', [1, 'a', None], {'k': [1, {'z': None}], 'n': 2}, [], {}, 'verif_fixtures.CONST_A',
          '$ {verif_fixtures.CONST_A}']
OBJ_REFS = ['verif_fixtures.CONST_A', 'verif_fixtures.CONST_LIST', 'verif_fixtures.Holder.attr',
            'verif_fixtures.Holder.Inner.deep', 'verif_fixtures.helper_function', 'verif_fixtures.PlainA', 'math.pi',
            'verif_fixtures.ZERO', 'verif_fixtures.NOTHING', 'verif_fixtures.EMPTY', 'verif_fixtures.FALSE',
            'verif_fixtures.EMPTY_TEXT',
            # names below a sub-package whose modules nobody has imported yet
            'verif_pkg.sub.leaf.TOKEN', 'verif_pkg.sub.leaf.Deep.attr']
RES_PATHS = ['r1', 'dir.r2', 'dir.sub.r3', 'dir.r4',
             # keys may contain any character but the delimiter - a closing brace too (the reference ends at the LAST one)
             'dir.r2}x', 'r1}']
IDS = [None, None, 'hero', 'id with space', -1, -77, 10 ** 6, 10 ** 6 + 5, 1, 2, 3, 2]
WORLD_KEYS = ['w', 'worlds/w', 'worlds/lvl/w']
KWNAMES = ['x', 'y', 'name']


class ResHandle(desper.Handle):
    fail_next = False

    def __init__(self, tag):
        self.tag = tag
        self.loads = 0

    def load(self):
        if self.fail_next:
            self.fail_next = False
            raise fx.TransientError('resource %s failed to load' % self.tag)
        self.loads += 1
        return ['resource', self.tag, self.loads]       # a new object at every load, as real loaders produce


class LazyRes:
    """expected constructor value of a $res{...} argument: the resource the handle yields (asked when the world is
    compared, i.e. after it was loaded: a handle that was cleared in between has loaded anew by then)"""
    def __init__(self, handle):
        self.handle = handle

    def __repr__(self):
        return 'resource of %s' % self.handle.tag


def resolve_name(name):
    """the Python object a dotted name denotes (longest importable module prefix, then attributes) - resolved here,
    not by the library function under test"""
    import importlib
    parts = name.split('.')
    for cut in range(len(parts), 0, -1):
        try:
            obj = importlib.import_module('.'.join(parts[:cut]))
        except ImportError:
            continue
        for attr in parts[cut:]:
            obj = getattr(obj, attr)
        return obj
    raise ImportError(name)


class LazyObj:
    """expected value of a ${dotted.name} argument in a world FILE: resolved when the loaded world is compared (by
    then the library has imported what it needed; identity is judged against those very modules)"""
    def __init__(self, name):
        self.name = name

    def __repr__(self):
        return 'object named %s' % self.name


def decode_arg(p):
    """-> ['v', value_ix] | ['obj', ix] | ['res', ix] | ['handle', ix]"""
    k = p % 10
    p //= 10
    if k < 5:
        return ['v', p % len(VALUES)]
    if k < 7:
        return ['obj', p % len(OBJ_REFS)]
    if k < 9:
        return ['res', p % len(RES_PATHS)]
    return ['handle', p % len(RES_PATHS)]


def decode_item(p):
    """one component / processor: type index + up to 2 args + up to 2 kwargs"""
    t = p % 7
    p //= 7
    nargs = (0, 1, 1, 2)[p % 4]
    p //= 4
    nkw = (0, 0, 1, 2)[p % 4]
    p //= 4
    args = []
    for _ in range(nargs):
        args.append(decode_arg(p % 300))
        p //= 300
    kwargs = []
    for _ in range(nkw):
        kwargs.append(decode_arg(p % 300))
        p //= 300
    return {'type': t, 'args': args, 'kwargs': kwargs}


ITEM_SPACE = 7 * 4 * 4 * 300 ** 4


def strategy():
    item = worldops.packed(ITEM_SPACE).map(decode_item)
    entity = st.tuples(st.integers(0, len(IDS) - 1), st.lists(item, max_size=4)).map(
        lambda t: {'id': t[0], 'components': t[1]})
    return st.fixed_dictionaries({
        'driver': st.integers(0, 2).map(lambda k: 'dict' if k == 0 else 'file'),
        'key': st.integers(0, 2),
        'flaky': st.integers(0, 3),
        'split': st.integers(0, 3),
        'amp': worldops.size_amp(none=50, sizes=(64, 70, 127, 130, 260)),
        'processors': st.lists(item, max_size=4),
        'entities': st.lists(entity, max_size=5)})


def viol(clause, **d):
    raise PropertyViolation(clause, d)


SPLIT_CHARS = ['/', '/', ':', '|']


def run_case(case):
    tmp = tempfile.mkdtemp(prefix='desper-c15-')
    # the key delimiter of resource maps is configurable (class attribute ResourceMap.split_char): some cases run
    # with another one - $res{a.b} / $handle{a.b} name the same resources whatever the delimiter is
    old_split = desper.ResourceMap.split_char
    desper.ResourceMap.split_char = SPLIT_CHARS[case.get('split', 0)]
    try:
        return _run(case, tmp)
    finally:
        desper.ResourceMap.split_char = old_split
        shutil.rmtree(tmp, ignore_errors=True)


def _run(case, tmp):
    facts = collections.Counter()
    del fx.LOG[:]
    root = desper.ResourceMap()
    res = {}
    for p in RES_PATHS:
        h = ResHandle(p)
        root[desper.ResourceMap.split_char.join(p.split('.'))] = h
        res[p] = h

    def render(arg, as_file):
        """-> (value written into the description, expected constructor value, identity required?)"""
        kind, ix = arg
        if kind == 'v':
            v = copy.deepcopy(VALUES[ix])
            return v, copy.deepcopy(v), False
        if kind == 'obj':
            name = OBJ_REFS[ix]
            facts['ref_object'] += 1
            if as_file:
                return '${%s}' % name, LazyObj(name), True
            if name.startswith('verif_pkg.'):
                # (names below the sub-package are only ever resolved by the library itself, from world files: the
                # first such load of a process meets modules nobody has imported yet)
                name = OBJ_REFS[0]
            obj = resolve_name(name)
            return obj, obj, True
        path = RES_PATHS[ix]
        if kind == 'res':
            facts['ref_res'] += 1
            return ('$res{%s}' % path if as_file else res[path]()), LazyRes(res[path]), True
        facts['ref_handle'] += 1
        return ('$handle{%s}' % path if as_file else res[path]), res[path], True

    as_file = case['driver'] == 'file'
    # scale: the listed entities are repeated until the world has about `amp` of them (big levels)
    all_entities = list(case['entities'])
    if case.get('amp') and all_entities:
        all_entities = (all_entities * (case['amp'] // len(all_entities) + 1))[:case['amp'] + 3]
        facts['big_world'] += 1
    desc = {'processors': [], 'entities': []}
    expected_procs = []
    seen = set()
    for it in case['processors']:
        tname = fx.PROCESSOR_TYPES[it['type'] % len(fx.PROCESSOR_TYPES)]
        if tname in seen:
            continue
        seen.add(tname)
        d, e = build_item(it, 'verif_fixtures.' + tname, getattr(fx, tname), render, as_file, 'p%d' % len(expected_procs))
        desc['processors'].append(d)
        expected_procs.append(e)
    expected_entities = []
    used_ids = set()
    unnamed_listed = False
    for ei, ent in enumerate(all_entities):
        eid = IDS[ent['id']]
        if eid is not None and eid in used_ids:
            eid = None
        if eid in (1, 2, 3) and unnamed_listed:
            # (small positive identifiers - the ones the automatic numbering would hand out - are only listed before
            # the first entity without an identifier: listed later they could name an entity that exists already)
            eid = None
        if eid is None:
            unnamed_listed = True
        elif eid in (1, 2, 3):
            facts['explicit_id_in_the_automatic_range'] += 1
        if eid is not None:
            used_ids.add(eid)
        comps, exp = [], []
        seen = set()
        for ci, it in enumerate(ent['components']):
            tname = fx.COMPONENT_TYPES[it['type'] % len(fx.COMPONENT_TYPES)]
            if tname in seen:
                continue
            seen.add(tname)
            d, e = build_item(it, 'verif_fixtures.' + tname, getattr(fx, tname), render, as_file, 'e%dc%d' % (ei, ci))
            comps.append(d)
            exp.append(e)
        ed = {'components': comps}
        if eid is not None:
            ed['id'] = eid
        desc['entities'].append(ed)
        expected_entities.append({'id': eid, 'components': exp})

    if as_file:
        path = os.path.join(tmp, 'world.json')
        with open(path, 'w') as f:
            json.dump(desc, f)
        handle = desper.WorldFromFileHandle(path)
        key = WORLD_KEYS[case['key']].replace('/', desper.ResourceMap.split_char)
        root[key] = handle
        # user code that fails once (a constructor, the load of a referenced resource): the program catches the
        # exception and asks the same handle again - it gets the described world, not a left-over
        flaky = case.get('flaky', 0)
        fx.FAIL['ctor'] = 1 if flaky == 2 else 0
        if flaky == 3:
            for h in res.values():
                h.clear()
                h.fail_next = True
        world = None
        for attempt in range(2 + len(res)):
            try:
                world = handle()
                break
            except fx.TransientError:
                facts['load_failed_then_retried'] += 1
            except Exception as exc:
                viol('loading_the_world_raised', exception=repr(exc)[:600], key=key)
        fx.FAIL['ctor'] = 0
        for h in res.values():
            h.fail_next = False
        if not isinstance(world, desper.World):
            viol('handle_did_not_yield_a_world', got=repr(world), failed_attempts=facts['load_failed_then_retried'])
        if world.dispatch_enabled:
            viol('world_returned_with_dispatching_enabled')
        if fx.LOG:
            viol('callbacks_ran_before_the_world_was_returned', log=[(k, repr(c)) for k, c, a in fx.LOG])
        expected_types = [desper.OnUpdateProcessor, desper.CoroutineProcessor] + [e['type'] for e in expected_procs]
        if key.count(desper.ResourceMap.split_char) >= 1 and (facts['ref_res'] or facts['ref_handle']):
            facts['nested_world_handle_with_resource_refs'] += 1
    else:
        handle = None
        world = desper.World()
        try:
            desper.populate_world_from_dict(world, desc)
        except Exception as exc:
            viol('populate_world_from_dict_raised', exception=repr(exc)[:600])
        expected_types = [e['type'] for e in expected_procs]

    def verify(world, handle, expected_procs, expected_entities, expected_types):
        # processors
        procs = world.processors
        if [type(p) for p in procs] != expected_types:
            viol('processors_are_exactly_the_listed_ones_after_the_defaults', got=[type(p).__name__ for p in procs],
                 expected=[t.__name__ for t in expected_types])
        listed = procs[len(procs) - len(expected_procs):] if expected_procs else []
        for p, e in zip(listed, expected_procs):
            check_ctor(p, e, 'processor')
        # entities
        nonempty = [e for e in expected_entities if e['components']]
        ents = world.entities if not as_file else None
        tag_to_entity = {}
        for T in fx.QUERY_ROOTS:
            for ent, comp in world.get(T):
                tag_to_entity[comp.kwargs.get('tag')] = ent
        found = set()
        for e in nonempty:
            if e['id'] is not None:
                ent = e['id']
            else:
                ent = tag_to_entity.get(e['components'][0]['tag'], viol)
                if ent is viol:
                    viol('listed_entity_not_found', tag=e['components'][0]['tag'])
            comps = world.get_components(ent)
            if sorted(type(c).__name__ for c in comps) != sorted(x['type'].__name__ for x in e['components']):
                viol('entity_has_exactly_the_listed_components', entity=repr(ent),
                     got=[type(c).__name__ for c in comps], expected=[x['type'].__name__ for x in e['components']])
            for x in e['components']:
                c = world.get_component(ent, x['type'])
                if type(c) is not x['type']:
                    viol('entity_has_exactly_the_listed_components', entity=repr(ent), missing=x['type'].__name__)
                check_ctor(c, x, 'component')
                x['entity'] = ent
                x['obj'] = c
            if ent in found:
                viol('two_listed_entities_share_one_identifier', entity=repr(ent))
            found.add(ent)
        total = len({ent for T in fx.QUERY_ROOTS for ent, _c in world.get(T)})
        if total != len(nonempty):
            viol('number_of_entities_differs_from_description', got=total, expected=len(nonempty))
        # callbacks
        if as_file:
            world.dispatch_enabled = True
            if len(world.entities) != len(nonempty):
                viol('number_of_entities_differs_from_description', got=len(world.entities), expected=len(nonempty))
        per = collections.defaultdict(list)
        for kind, comp, args in fx.LOG:
            per[id(comp)].append((kind, args))
        for e in nonempty:
            for x in e['components']:
                ev = fx.DECLARED_EVENTS[x['type'].__name__]
                if ev is None:
                    continue
                want = []
                if 'on_add' in ev:
                    want.append('on_add')
                if as_file and 'on_world_load' in ev:
                    want.append('on_world_load')
                got = per.get(id(x['obj']), [])
                if [k for k, _a in got] != want:
                    viol('handler_component_gets_on_add_once_then_on_world_load_once', component=repr(x['obj']),
                         got=[k for k, _a in got], expected=want)
                for k, a in got:
                    if k == 'on_add' and not (len(a) == 2 and a[0] == x['entity'] and a[1] is world):
                        viol('on_add_arguments', got=repr(a), entity=repr(x['entity']))
                    if k == 'on_world_load' and not (len(a) == 2 and a[0] is handle and a[1] is world):
                        viol('on_world_load_arguments', got=repr(a))
                facts['handler_component'] += 1

    def build_expected():
        """(re)compute what the description means right now (resource references follow the current tree)"""
        eprocs, eents = [], []
        seen_p = set()
        for it in case['processors']:
            tname = fx.PROCESSOR_TYPES[it['type'] % len(fx.PROCESSOR_TYPES)]
            if tname in seen_p:
                continue
            seen_p.add(tname)
            _d, e = build_item(it, 'verif_fixtures.' + tname, getattr(fx, tname), render, as_file, 'p%d' % len(eprocs))
            eprocs.append(e)
        used = set()
        unnamed = False
        for ei, ent in enumerate(all_entities):
            eid = IDS[ent['id']]
            if eid is not None and eid in used:
                eid = None
            if eid in (1, 2, 3) and unnamed:
                eid = None
            if eid is None:
                unnamed = True
            if eid is not None:
                used.add(eid)
            exp, seen_c = [], set()
            for ci, it in enumerate(ent['components']):
                tname = fx.COMPONENT_TYPES[it['type'] % len(fx.COMPONENT_TYPES)]
                if tname in seen_c:
                    continue
                seen_c.add(tname)
                _d, e = build_item(it, 'verif_fixtures.' + tname, getattr(fx, tname), render, as_file, 'e%dc%d' % (ei, ci))
                exp.append(e)
            eents.append({'id': eid, 'components': exp})
        return eprocs, eents

    verify(world, handle, expected_procs, expected_entities, expected_types)
    if as_file:
        # second load of the same handle: meanwhile components have mutated the containers they were built with and
        # a referenced resource was replaced - the reloaded world is built from the DESCRIPTION again
        for e in expected_entities:
            for x in e['components']:
                c = x.get('obj')
                for v in list(getattr(c, 'args', ())) + list(getattr(c, 'kwargs', {}).values()):
                    if isinstance(v, list) and v is not fx.CONST_LIST and v is not fx.EMPTY:
                        v.append('mutated by the first world')
                    elif isinstance(v, dict) and v is not fx.Holder.attr:
                        v['mutated'] = True
        newh = ResHandle('r1-replaced')
        root['r1'] = newh
        if desper.ResourceMap.split_char != '/':
            facts['other_key_delimiter'] += 1
        res['r1'] = newh
        handle.clear()
        del fx.LOG[:]
        try:
            world2 = handle()
        except Exception as exc:
            viol('loading_the_world_a_second_time_raised', exception=repr(exc)[:600])
        if world2 is world:
            viol('cleared_handle_returned_the_old_world')
        if world2.dispatch_enabled or fx.LOG:
            viol('world_returned_with_dispatching_enabled_or_callbacks_ran', second_load=True)
        ep2, ee2 = build_expected()
        facts['second_load'] += 1
        verify(world2, handle, ep2, ee2, expected_types)
    kinds = sum(1 for k in ('ref_object', 'ref_res', 'ref_handle') if facts[k])
    nonempty = [e for e in expected_entities if e['components']]
    nontrivial = (len(nonempty) >= 2 and kinds >= 2) or facts['nested_world_handle_with_resource_refs']
    classes = sorted(k for k, v in facts.items() if v) + ['driver_' + case['driver']]
    return {'nontrivial': bool(nontrivial), 'classes': classes, 'steps': len(case['entities'])}


def build_item(it, dotted, typ, render, as_file, tag):
    args_d, args_e = [], []
    for a in it['args']:
        d, e, ident = render(a, as_file)
        args_d.append(d)
        args_e.append((e, ident))
    kw_d, kw_e = {'tag': tag}, {'tag': (tag, False)}
    for i, a in enumerate(it['kwargs']):
        d, e, ident = render(a, as_file)
        kw_d[KWNAMES[i]] = d
        kw_e[KWNAMES[i]] = (e, ident)
    d = {'type': dotted if as_file else typ}
    # 'args' / 'kwargs' keys are optional in a description: leave them out when empty (every other case)
    if args_d or len(tag) % 2:
        d['args'] = args_d
    d['kwargs'] = kw_d
    return d, {'type': typ, 'args': args_e, 'kwargs': kw_e, 'tag': tag}


def same(got, exp, ident):
    if isinstance(exp, LazyRes):
        exp = exp.handle()
    if isinstance(exp, LazyObj):
        exp = resolve_name(exp.name)
    if ident:
        return got is exp
    return type(got) is type(exp) and got == exp


def check_ctor(obj, exp, what):
    if len(obj.args) != len(exp['args']) or not all(same(g, e, i) for g, (e, i) in zip(obj.args, exp['args'])):
        viol(what + '_built_from_the_given_positional_arguments', tag=exp['tag'], got=repr(obj.args),
             expected=repr([e for e, _i in exp['args']]))
    if set(obj.kwargs) != set(exp['kwargs']) or not all(same(obj.kwargs[k], e, i) for k, (e, i) in exp['kwargs'].items()):
        viol(what + '_built_from_the_given_keyword_arguments', tag=exp['tag'], got=repr(obj.kwargs),
             expected=repr({k: e for k, (e, _i) in exp['kwargs'].items()}))
