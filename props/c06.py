"""C06 - Type queries match exactly the subclasses, once each (DESIGN 3/C06)."""
import collections

import desper
from hypothesis import strategies as st

from vlib.core import PropertyViolation
from vlib.classes import build_dag, RecBase, EqByMode, npaths
from vlib import worldops

ID = 'C06'
LEVEL = 'exploration'
BUDGET = {'quick': 1500, 'thorough': 4000}
RULE = ('Hypothesis-generated class DAGs (3-9 classes created with type(); bases = subsets of earlier classes made '
        'MRO-acceptable by construction; half of the cases start from a diamond prefix), instantiated twice: as '
        'component classes and as Processor subclasses (some classes falsy, some with value equality: all their '
        'instances equal, results are compared by identity); a generated assignment of exact types to 1-4 entities (in a quarter of the cases the last entity also holds a bare object() and `object` itself is a query type; some of their components REPLACED by a new instance of the same type before the queries) '
        'and a generated subset of processor classes; then EVERY class of the DAG is used as query type for all '
        'six methods (get, get_component, has_component, remove_component, get_processor, remove_processor), the '
        'removing ones on a rebuilt world. Oracle: issubclass/isinstance. '
        'In ~15% of the cases the world goes through 64-150 detach / re-attach (components) and remove / re-add (processors) cycles before it is queried. '
        ''
        'One more component / processor class may be defined after the first round of queries; the optional default of get_component is also one of the own components of the entity. '
        'Non-trivial = the DAG has a class with '
        '>= 2 bases and some query type reaches an attached exact type by >= 2 distinct inheritance paths. '
        'Distinct = sha1 of canonical JSON.')
ASSUMPTIONS = [
    'ABC virtual subclasses are not generated (only subclasses Python lists in __subclasses__)',
    'which of several matching subclass instances a single-result query returns is not fixed (any match is '
    'accepted unless an exact-type object exists)',
]
FINDINGS = {}


class ProcRoot(EqByMode, desper.Processor):
    def process(self, dt=1):
        pass


def strategy():
    small = st.integers(0, 8)
    return st.fixed_dictionaries({
        'classes': worldops.classes_strategy(3, 9),
        'ents': st.lists(worldops.packed(9 ** 4).map(
            lambda p: [p % 9, p // 9 % 9, p // 81 % 9, p // 729 % 9][:1 + p % 4]), min_size=1, max_size=4),
        'procs': st.lists(small, max_size=5),
        # churn: 0, or how many detach / re-attach cycles (components) and remove / re-add cycles (processors) the
        # world goes through before it is queried - the answers must not depend on how the state was reached
        'amp': worldops.size_amp(),
        # late: 0, or a selector for one more component class and one more processor class that are defined only
        # after every existing class has been used as a query type
        'late': st.integers(0, 11).map(lambda k: k if k < 9 else 0),
        # repl: which entities have one of their components REPLACED (add_component of a new instance of a type the
        # entity holds) before the queries - bit i: entity i, bits 4-5: which of its components
        'repl': st.integers(0, 63),
        # root: 1 = the root of every hierarchy takes part: the last entity also holds a bare object() marker (attached
        # last), and `object` is one of the query types (components and processors)
        'root': st.integers(0, 3).map(lambda k: int(k == 3)),
    })


def viol(clause, **d):
    raise PropertyViolation(clause, d)


def run_case(case):
    spec = case['classes']
    # component classes carry the generated event-handler shapes: the removal path of handler components is
    # not the one of plain components
    comp_classes, _ = build_dag(spec, root=RecBase, prefix='K', decorate=True)
    sink = []
    proc_classes, _ = build_dag(spec, root=ProcRoot, prefix='P', decorate=False)
    n = len(comp_classes)
    ents = []
    for row in case['ents']:
        types = []
        for cix in row:
            if comp_classes[cix % n] not in types:
                types.append(comp_classes[cix % n])
        ents.append(types)
    ptypes = []
    for cix in case['procs']:
        if proc_classes[cix % n] not in ptypes:
            ptypes.append(proc_classes[cix % n])

    def build():
        w = desper.World()
        rows = []
        for types in ents:
            comps = [t() for t in types]
            for c in comps:
                c._log = sink
            if case.get('root') and types is ents[-1]:
                comps.append(object())
            e = w.create_entity(*comps)
            rows.append((e, comps))
        repl = case.get('repl', 0)
        for i, (e, comps) in enumerate(rows):
            if repl >> i & 1 and comps:
                k = (repl >> 4) % len(comps)
                new = type(comps[k])()
                if type(new) is not object:
                    new._log = sink
                try:
                    w.add_component(e, new)
                except Exception as exc:
                    viol('add_component_raised', exception=repr(exc), during='replacement')
                comps[k] = new
        procs = [t() for t in ptypes]
        for p in procs:
            w.add_processor(p)
        churn = case.get('amp', 0)
        for r in range(churn):
            if rows and rows[r % len(rows)][1]:
                e, comps = rows[r % len(rows)]
                c = comps[(r // len(rows)) % len(comps)]
                got = w.remove_component(e, type(c))
                if got is not c:
                    viol('remove_component_returns_exact_or_a_match', type=type(c).__name__, got=repr(got),
                         exact=[repr(c)], matches=[], during='churn', cycle=r)
                w.add_component(e, c)
            if procs:
                p = procs[r % len(procs)]
                got = w.remove_processor(type(p))
                if got is not p:
                    viol('remove_processor_returns_exact_or_a_match', type=type(p).__name__, got=repr(got),
                         during='churn', cycle=r)
                w.add_processor(p)
        return w, rows, procs

    def q(fn, *a):
        try:
            return fn(*a)
        except Exception as exc:
            viol('query_raised', query=getattr(fn, '__name__', '?'), args=repr(a), exception=repr(exc))

    multi_path = False
    w, rows, procs = build()
    for T in comp_classes:
        multi_path = component_queries(w, rows, T, q) or multi_path
    for T in proc_classes:
        multi_path = processor_queries(w, procs, T, q) or multi_path
    if case.get('root'):
        component_queries(w, rows, object, q)
        processor_queries(w, procs, object, q)
    removal_part(case, build, comp_classes, proc_classes, ents, n, q)
    if case.get('late'):
        # a class DEFINED after every existing class has been used as a query type (a plugin, a class factory):
        # one more component class and one more processor class, instances attached, every query asked again
        sel = case['late']
        from vlib.classes import add_class
        eff_c, eff_p = [[] for _ in comp_classes], [[] for _ in proc_classes]
        newc = add_class(comp_classes, eff_c, {'bases': [sel, sel // 3], 'ev': (0, 3, 16, 32)[sel % 4]},
                         root=RecBase, prefix='K', decorate=True)
        newp = add_class(proc_classes, eff_p, {'bases': [sel, sel // 3], 'ev': 0}, root=ProcRoot, prefix='P',
                         decorate=False)
        inst = newc()
        inst._log = sink
        e0, comps0 = rows[sel % len(rows)]
        if not any(type(c) is newc for c in comps0):
            try:
                w.add_component(e0, inst)
            except Exception as exc:
                viol('add_component_raised', exception=repr(exc))
            comps0.append(inst)
        pinst = newp()
        try:
            w.add_processor(pinst)
        except Exception as exc:
            viol('add_processor_raised', exception=repr(exc))
        procs.append(pinst)
        for T in comp_classes:
            component_queries(w, rows, T, q)
        for T in proc_classes:
            processor_queries(w, procs, T, q)
    multi_base = any(len([b for b in c.__bases__ if b is not RecBase]) >= 2 for c in comp_classes)
    classes = []
    if multi_base:
        classes.append('multiple_inheritance')
    if multi_path:
        classes.append('match_through_two_paths')
    if len(ptypes) >= 2:
        classes.append('two_or_more_processors')
    if case.get('amp'):
        classes.append('churned_before_the_queries')
    if case.get('late'):
        classes.append('class_defined_after_the_first_queries')
    if case.get('repl', 0) & 15:
        classes.append('component_replaced_before_the_queries')
    if case.get('root'):
        classes.append('query_type_object_and_a_bare_object_component')
    return {'nontrivial': multi_base and multi_path, 'classes': classes}


def component_queries(w, rows, T, q):
    multi_path = False
    got = q(w.get, T)
    want = [(e, c) for (e, comps) in rows for c in comps if isinstance(c, T)]
    if collections.Counter(id(c) for _e, c in got) != collections.Counter(id(c) for _e, c in want):
        viol('get_reports_each_match_once', type=T.__name__, got=[repr(c) for _e, c in got],
             expected=[repr(c) for _e, c in want])
    owner = {id(c): e for e, c in want}
    for e, c in got:
        if owner[id(c)] != e:
            viol('get_reports_wrong_owner', type=T.__name__)
    for (e, comps) in rows:
        matches = [c for c in comps if isinstance(c, T)]
        exact = [c for c in comps if type(c) is T]
        for c in matches:
            if npaths(type(c), T) >= 2:
                multi_path = True
        if bool(q(w.has_component, e, T)) != bool(matches):
            viol('has_component_matches_subclasses', type=T.__name__, entity=e, expected=bool(matches))
        g = q(w.get_component, e, T, viol)
        if exact:
            ok = g is exact[0]
        elif matches:
            ok = any(g is m for m in matches)
        else:
            ok = g is viol
        if not ok:
            viol('get_component_prefers_exact_then_subclass', type=T.__name__, got=repr(g),
                 exact=[repr(x) for x in exact], matches=[repr(m) for m in matches])
        # the optional default may be ANY object - also one of the entity's own components
        for d in comps[:3]:
            g2 = q(w.get_component, e, T, d)
            ok2 = (g2 is exact[0]) if exact else (any(g2 is m for m in matches) if matches else g2 is d)
            if not ok2:
                viol('get_component_prefers_exact_then_subclass', type=T.__name__, got=repr(g2), default=repr(d),
                     exact=[repr(x) for x in exact], matches=[repr(m) for m in matches])
    return multi_path


def processor_queries(w, procs, T, q):
    multi_path = False
    matches = [p for p in procs if isinstance(p, T)]
    exact = [p for p in procs if type(p) is T]
    for p in matches:
        if npaths(type(p), T) >= 2:
            multi_path = True
    g = q(w.get_processor, T)
    if exact:
        ok = g is exact[0]
    elif matches:
        ok = any(g is m for m in matches)
    else:
        ok = g is None
    if not ok:
        viol('get_processor_prefers_exact_then_subclass', type=T.__name__, got=repr(g))
    return multi_path


def removal_part(case, build, comp_classes, proc_classes, ents, n, q):
    # remove_component on rebuilt worlds
    for ti in range(n):
        for ei in range(len(ents)):
            w2, rows2, _ = build()
            T = comp_classes[ti]
            e, comps = rows2[ei]
            # every query once before the removal: a result remembered from before must not survive it
            for T0 in comp_classes:
                q(w2.get, T0)
                for (e0, _c0) in rows2:
                    q(w2.has_component, e0, T0)
                    q(w2.get_component, e0, T0)
            matches = [c for c in comps if isinstance(c, T)]
            exact = [c for c in comps if type(c) is T]
            r = q(w2.remove_component, e, T)
            if exact:
                ok = r is exact[0]
            elif matches:
                ok = any(r is m for m in matches)
            else:
                ok = r is None
            if not ok:
                viol('remove_component_returns_exact_or_a_match', type=T.__name__, got=repr(r),
                     exact=[repr(x) for x in exact], matches=[repr(m) for m in matches])
            for (e2, comps2) in rows2:
                left = [c for c in comps2 if c is not r]
                got = q(w2.get_components, e2)
                if collections.Counter(map(id, got)) != collections.Counter(map(id, left)):
                    viol('remove_component_detaches_exactly_one_object', type=T.__name__, removed=repr(r),
                         entity=e2, left=[repr(c) for c in got], expected=[repr(c) for c in left])
            for T2 in comp_classes:
                got = q(w2.get, T2)
                want = [c for (_e, cs) in rows2 for c in cs if c is not r and isinstance(c, T2)]
                if collections.Counter(id(c) for _e, c in got) != collections.Counter(map(id, want)):
                    viol('get_after_remove_component', removed=repr(r), type=T2.__name__)
    # processors
    for ti in range(n):
        w2, _rows2, procs2 = build()
        T = proc_classes[ti]
        for T0 in proc_classes:
            q(w2.get_processor, T0)
        matches = [p for p in procs2 if isinstance(p, T)]
        exact = [p for p in procs2 if type(p) is T]
        r = q(w2.remove_processor, T)
        if exact:
            ok = r is exact[0]
        elif matches:
            ok = any(r is m for m in matches)
        else:
            ok = r is None
        if not ok:
            viol('remove_processor_returns_exact_or_a_match', type=T.__name__, got=repr(r))
        left = [p for p in procs2 if p is not r]
        got = q(lambda: w2.processors)
        if collections.Counter(map(id, got)) != collections.Counter(map(id, left)):
            viol('remove_processor_detaches_exactly_one_object', type=T.__name__, removed=repr(r),
                 left=[repr(p) for p in got])
        for T2 in proc_classes:
            g = q(w2.get_processor, T2)
            m2 = [p for p in left if isinstance(p, T2)]
            if (g is None) != (not m2) or (g is not None and not any(g is m for m in m2)):
                viol('get_processor_after_remove_processor', type=T2.__name__, removed=repr(r), got=repr(g))
        if r is not None:
            # replacement through add_processor: the old instance of that exact type must not be found any more
            fresh = type(r)()
            try:
                w2.add_processor(fresh)
            except Exception as exc:
                viol('add_processor_raised', exception=repr(exc))
            now = left + [fresh]
            for T2 in proc_classes:
                g = q(w2.get_processor, T2)
                m2 = [p for p in now if isinstance(p, T2)]
                ex2 = [p for p in now if type(p) is T2]
                ok = (g is ex2[0]) if ex2 else (any(g is m for m in m2) if m2 else g is None)
                if not ok:
                    viol('get_processor_after_replacement', type=T2.__name__, got=repr(g))
