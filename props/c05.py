"""C05 - Deferred entity deletion is applied at the next process, safely (DESIGN 3/C05)."""
from vlib import worldops

ID = 'C05'
LEVEL = 'exploration'
BUDGET = {'quick': 1200, 'thorough': 5000}
RULE = ('Hypothesis-generated World histories weighted towards delete_entity(e) followed by other operations on '
        'the same id (remove its components one by one, delete again, delete immediately, add, replace) and 1-3 '
        'process() calls, with a lowest-priority sentinel processor observing the world at the moment '
        'processors start; deferred deletion of an id that owns nothing is the only legitimate source of a '
        'failing process(); handler components can be armed so that their on_remove, when it runs inside '
        'process(), deletes (deferred or immediately) or strips another entity - or RAISES (user code failing: the '
        'frame fails, then the next three frames must complete and no query may raise; the rest of such a history '
        'is not modelled); outside process() armed callbacks '
        'may issue operations as well (e.g. an on_remove running during an immediate deletion that deferred-'
        'deletes its own entity). Oracle: reference model of attached/pending. '
        'A small share of the histories is AMPLIFIED (one operation, each operation - create x 70, delete x 70, process - or the whole history repeated). '
        'Non-trivial = a deferred delete with '
        '>= 1 intervening operation on the same id before process, or a legitimately failed frame followed by '
        'further frames. Distinct = sha1 of canonical JSON.')
ASSUMPTIONS = [
    'an exception is injected only into an on_remove running inside process() (the "failed process()" of the '
    'statement); after it only "the world does not keep failing" is demanded, not which deletions were applied',
    'a deferred delete issued by a callback while a frame applies deletions may take effect in that frame or '
    'in the next one (either is accepted, the entity must not exist in between)',
    'an id whose row vanished while its deletion was pending is not re-populated before the next process()',
    'process() runs under a deterministic budget of 200000 executed lines inside desper, plus 4000 per step of an '
    'amplified history (hang detection)',
    'after a legitimately failed frame (k ids that owned nothing were deferred-deleted) one of the next k frames must succeed with all '
    'pending deletions applied',
]
WEIGHTS = {'create': 6, 'add': 5, 'remove': 6, 'delete': 7, 'delete_now': 3, 'process': 6, 'clear': 1,
           'toggle': 1, 'bad_delete': 1, 'arm': 4, 'revive': 1}
FINDINGS = {}


def strategy():
    return worldops.case_strategy(WEIGHTS)


def run_case(case):
    run = worldops.Run(case, checks={'deletion'})
    try:
        run.run()
    except worldops.PropertyViolation as v:
        v.info = worldops.info_from(run, False)
        raise
    f = run.flags
    nontrivial = ((f['op_on_pending_id'] and f['process']) or f['recovered_after_failed_frame']
                  or f['reaction_in_process'])
    return worldops.info_from(run, nontrivial)
