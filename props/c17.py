"""C17 - A static resource map is a faithful, immutable mirror (DESIGN 3/C17)."""
import collections

import desper
from hypothesis import strategies as st

from vlib.core import PropertyViolation
from vlib import worldops

ID = 'C17'
LEVEL = 'exploration'
BUDGET = {'quick': 1000, 'thorough': 4000}
RULE = ('Hypothesis-generated resource trees (<= 20 nodes, depth <= 4, handles / sub-maps / layered handles) whose '
        'names mix Python identifiers (keywords, leading/trailing underscores, dunder-shaped and private-looking '
        '__x names, non-ASCII) with arbitrary other strings (empty, blanks, dots, dashes, digit first); names '
        'that are members of the snapshot type are excluded. Oracle = round trip against the source map: for '
        'every node item access (and attribute access for identifiers) on the snapshot yields the identical '
        'loaded resource / a mirroring snapshot, get yields the identical handle, absent near-miss names raise; '
        'setattr/delattr on every snapshot node (existing, new, non-identifier names) must raise and the whole '
        'mirror check must pass again afterwards. '
        'One node kind mounts a sub-map that is already part of the tree a second time (another name, another map; never below itself). One node kind registers an already registered handle object under a second name, in the same map or in another one (an alias): every name denotes it, in the map and in the snapshot. In ~13% of the cases the root level gets 40-260 further handles (the first and the last of them shadowing an older one). '
        ''
        'After the source map was changed (names changing kind, composite-key insertions below existing sub-maps, clear) a SECOND snapshot is taken and must mirror the map as it is then. Before the mutation attempts every resource is unloaded: a rejected mutation must not load anything. '
        'Non-trivial = identifier and non-identifier names side by '
        'side in one map, depth >= 2, and a layered handle or an underscore-prefixed identifier. Distinct = sha1 '
        'of canonical JSON.')
ASSUMPTIONS = [
    'names equal to members of the snapshot type (dir(StaticResourceMap), __dict__, __weakref__, __slots__) are '
    'excluded, as the property says',
    'snapshot.__dict__ is not manipulated directly (that is not "setting an attribute")',
    'the snapshot is compared with the source right after creation; afterwards the source is mutated and the '
    'snapshot must keep yielding the same objects (it is a snapshot)',
]
FINDINGS = {}

IDENT = ['a', 'b', '_', '_x', 'class', 'for', 'x1', '__foo__', '__x', 'é', 'None', '__y_', 'self']
OTHER = ['', ' ', 'a.b', 'a-b', '1x', 'a b', '$', 'ü-', '__x-']
NAMES = IDENT + OTHER
MEMBERS = set(dir(desper.StaticResourceMap)) | {'__dict__', '__weakref__', '__slots__'}
assert not (set(NAMES) & MEMBERS)
PROBES = ['zz', 'a_', '__z', 'no such', '-']


class UH(desper.Handle):
    n = 0

    def __init__(self):
        UH.n += 1
        self.res = ('res', UH.n)

    loads = 0

    def load(self):
        self.loads += 1
        return self.res + (self.loads,)     # a new object at every load, as real loaders produce


def decode_node(p):
    return {'parent': p % 8, 'name': p // 8 % len(NAMES), 'kind': ('h', 'h', 'h', 'm', 'm', 'layered', 'alias', 'mount')[p // (8 * len(NAMES)) % 8]}


def strategy():
    node = worldops.packed(8 * len(NAMES) * 8).map(decode_node)
    # amp: 0, or the number of further handles the root level gets (wide levels, one of the names layered)
    return st.fixed_dictionaries({'nodes': st.lists(node, min_size=1, max_size=20),
                                  'amp': worldops.size_amp(none=40, sizes=(40, 64, 65, 66, 130, 260))})


def viol(clause, **d):
    raise PropertyViolation(clause, d)


def build(case, facts):
    root = desper.ResourceMap()
    maps = [(root, 0)]
    made = []
    for nd in case['nodes']:
        parent, depth = maps[nd['parent'] % len(maps)]
        name = NAMES[nd['name']]
        if name in parent.maps or name in parent.handles:
            facts['duplicate_name_skipped'] += 1
            continue
        if nd['kind'] == 'm':
            if depth >= 3:
                continue
            m = desper.ResourceMap()
            parent[name] = m
            maps.append((m, depth + 1))
            facts['max_depth'] = max(facts['max_depth'], depth + 1)
        elif nd['kind'] == 'h':
            made.append(UH())
            parent[name] = made[-1]
        elif nd['kind'] == 'mount':
            # a sub-map that is already part of the tree is mounted a second time, under another name or in another
            # map (shared content such as `common`), never below itself: still a finite tree of paths
            def below(m, target):
                return m is target or any(below(x, target) for x in m.maps.values())
            cands = [m for (m, d) in maps[1:] if not below(m, parent) and d + depth + 1 <= 4]
            if cands:
                parent[name] = cands[(nd['parent'] + nd['name']) % len(cands)]
                facts['sub_map_mounted_at_two_places'] += 1
        elif nd['kind'] == 'alias':
            # one handle object registered under a second name (an alias such as default_font), in the same map or
            # in another one: every name it is registered under denotes it, in the map and in the snapshot
            if not made:
                made.append(UH())
            else:
                facts['handle_registered_under_two_names'] += 1
            parent[name] = made[(nd['parent'] + nd['name']) % len(made)]
        else:
            older = UH()
            parent[name] = older
            parent.handles.maps.insert(0, {})
            parent[name] = UH()
            facts['layered_handle'] += 1
    if case.get('amp'):
        # a wide level: many handles side by side, the first and the last of them shadowing an older handle
        for k in range(case['amp']):
            name = 'w%03d' % k
            if k in (0, case['amp'] - 1):
                root[name] = UH()
                root.handles.maps.insert(0, {})
                facts['layered_handle'] += 1
            root[name] = UH()
        facts['wide_level'] += 1
    return root


def mirror(snap, src, path, facts):
    if not isinstance(snap, desper.StaticResourceMap):
        viol('sub_map_not_mirrored_as_static_map', path=path, got=type(snap).__name__)
    names_here = list(src.handles) + list(src.maps)
    if any(n.isidentifier() for n in names_here) and any(not n.isidentifier() for n in names_here):
        facts['mixed_names_in_one_map'] += 1
    if any(n.isidentifier() and n.startswith('_') for n in names_here):
        facts['underscore_identifier'] += 1
    for name in list(src.handles):
        want = src[name]
        hwant = src.get(name)
        try:
            got = snap[name]
        except Exception as exc:
            viol('item_access_raised_for_present_handle', path=path + [name], exception=repr(exc))
        if got is not want:
            viol('item_access_yields_other_resource', path=path + [name])
        if name.isidentifier():
            try:
                ga = getattr(snap, name)
            except Exception as exc:
                viol('attribute_access_raised_for_present_handle', path=path + [name], exception=repr(exc))
            if ga is not want:
                viol('attribute_access_yields_other_resource', path=path + [name])
        try:
            gh = snap.get(name)
        except Exception as exc:
            viol('get_raised_for_present_handle', path=path + [name], exception=repr(exc))
        if gh is not hwant:
            viol('get_yields_other_handle', path=path + [name], got=repr(gh))
    for name, sub in src.maps.items():
        try:
            s = snap[name]
        except Exception as exc:
            viol('item_access_raised_for_present_map', path=path + [name], exception=repr(exc))
        if name.isidentifier():
            try:
                sa = getattr(snap, name)
            except Exception as exc:
                viol('attribute_access_raised_for_present_map', path=path + [name], exception=repr(exc))
            if sa is not s:
                viol('attribute_and_item_access_disagree_on_sub_map', path=path + [name])
        try:
            sg = snap.get(name)
        except Exception as exc:
            viol('get_raised_for_present_map', path=path + [name], exception=repr(exc))
        if sg is not s:
            viol('get_and_item_access_disagree_on_sub_map', path=path + [name])
        mirror(s, sub, path + [name], facts)
    present = set(src.handles) | set(src.maps)
    for name in PROBES + [n for n in NAMES if n not in present][:4]:
        if name in present or name in MEMBERS:
            continue
        for how, fn in (('item', lambda: snap[name]), ('get', lambda: snap.get(name)),
                        ('attr', lambda: getattr(snap, name))):
            try:
                v = fn()
            except (AttributeError, KeyError):
                continue
            except Exception as exc:
                viol('absent_name_raised_unexpected_exception', path=path + [name], how=how, exception=repr(exc))
            viol('absent_name_is_present_in_snapshot', path=path + [name], how=how, value=repr(v))


def observe(snap, src, path):
    """{path tuple: (kind, object the snapshot yields by item access)} for every node mirrored at creation time"""
    out = {}
    for name in list(src.handles):
        out[tuple(path + [name])] = ('handle', snap[name])
        out[tuple(path + [name, '<get>'])] = ('get', snap.get(name))
    for name, sub in src.maps.items():
        s = snap[name]
        out[tuple(path + [name])] = ('map', s)
        out.update(observe(s, sub, path + [name]))
    return out


def observe_paths(snap, before):
    out = {}
    for path in before:
        cur = snap
        if path[-1] == '<get>':
            for n in path[:-2]:
                cur = cur[n]
            out[path] = cur.get(path[-2])
        else:
            for n in path:
                cur = cur[n]
            out[path] = cur
    return out


def snapshots(snap, src, out):
    out.append((snap, src))
    for name, sub in src.maps.items():
        snapshots(snap[name], sub, out)


def run_case(case):
    facts = collections.Counter()
    root = build(case, facts)
    try:
        snap = root.get_static_map()
    except Exception as exc:
        viol('get_static_map_raised', exception=repr(exc),
             names=sorted({NAMES[n['name']] for n in case['nodes']}))
    mirror(snap, root, [], facts)
    nodes = []
    snapshots(snap, root, nodes)
    # "...raises and changes nothing": the resources are unloaded first - a rejected mutation must not load them
    all_handles = []

    def collect(m):
        for layer in m.handles.maps:
            all_handles.extend(layer.values())
        for sub in m.maps.values():
            collect(sub)
    collect(root)
    for h in all_handles:
        h.clear()
    loads_before = [h.loads for h in all_handles]
    attempts = 0
    for s, src in nodes:
        existing = (list(src.handles)[:2] + list(src.maps)[:1])
        for name in existing + ['fresh', 'not an identifier', '_handle_names']:
            for what, fn in (('setattr', lambda: setattr(s, name, 1)), ('delattr', lambda: delattr(s, name))):
                attempts += 1
                try:
                    fn()
                except Exception:
                    continue
                viol('mutation_of_snapshot_did_not_raise', how=what, name=name)
        try:
            s.fresh_attribute = 1
        except Exception:
            pass
        else:
            viol('mutation_of_snapshot_did_not_raise', how='assignment statement', name='fresh_attribute')
    facts['mutation_attempts'] = attempts
    for h, n0 in zip(all_handles, loads_before):
        if h.cached or h.loads != n0:
            viol('rejected_mutation_of_the_snapshot_changed_something', what='a resource got loaded',
                 resource=repr(h.res), cached=h.cached, loads=h.loads - n0)
    mirror(snap, root, [], facts)
    # it is a SNAPSHOT: what it yields does not move when the source map is changed afterwards
    before = observe(snap, root, [])
    all_maps = [m for (_s, m) in nodes]
    for k, nd in enumerate(case['nodes'][:6]):
        m = all_maps[nd['parent'] % len(all_maps)]
        names = list(m.handles) + list(m.maps)
        if not names:
            continue
        name = names[nd['name'] % len(names)]
        try:
            if k % 3 == 0:
                m[name] = desper.ResourceMap() if name in m.handles else UH()     # the name changes kind
            elif k % 3 == 1:
                m[name + '/inner'] = UH()           # a handle name becomes a map / a map gains a child
            else:
                m.clear()
        except Exception as exc:
            viol('mutating_the_source_map_raised', exception=repr(exc))
        facts['source_mutated_after_snapshot'] += 1
    if facts['source_mutated_after_snapshot']:
        try:
            after = observe_paths(snap, before)
        except PropertyViolation:
            raise
        except Exception as exc:
            viol('snapshot_changed_when_the_source_map_was_mutated', exception=repr(exc))
        for path, (kind, obj) in before.items():
            if after[path] is not obj:
                viol('snapshot_changed_when_the_source_map_was_mutated', path=path, kind=kind)
        # ... and a snapshot taken NOW mirrors the map as it is now (every level of it)
        try:
            snap2 = root.get_static_map()
        except Exception as exc:
            viol('get_static_map_raised', exception=repr(exc), when='second snapshot, after the map was changed')
        mirror(snap2, root, [], collections.Counter())
        facts['second_snapshot_after_the_map_changed'] += 1
    nontrivial = (facts['mixed_names_in_one_map'] and facts['max_depth'] >= 1
                  and (facts['layered_handle'] or facts['underscore_identifier']))
    return {'nontrivial': bool(nontrivial), 'classes': sorted(k for k, v in facts.items() if v and k != 'mutation_attempts'),
            'steps': len(case['nodes'])}
