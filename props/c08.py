"""C08 - Coroutines advance one step per frame and wake exactly on time (DESIGN 3/C08)."""
import collections
import itertools
from fractions import Fraction

import desper
from hypothesis import strategies as st

from vlib.core import PropertyViolation
from vlib import worldops

ID = 'C08'
LEVEL = 'exploration'
BUDGET = {'quick': 2000, 'thorough': 8000}
RULE = ('Hypothesis-generated schedules: 1-5 coroutine scripts (finite or cyclic lists of yield values from '
        '{None, 0, negative, positive multiples of 1/8}, written as int/float, fractions.Fraction or a float '
        'subclass; dt too may be a Fraction), a start for each (from outside before a frame, or from '
        'inside another coroutine\'s step) and a dt sequence of 3-25 non-negative multiples of 1/8 (zeros '
        'included). Oracle: reference model with one absolute deadline per coroutine in exact rational '
        'arithmetic; per frame the executed (coroutine, step) multiset must equal the model\'s and coroutines '
        'that stay runnable keep their relative order. Thorough tier additionally ENUMERATES two finite '
        'sub-spaces completely (see exhaustive_subspaces). '
        'In ~15% of the cases the coroutines are multiplied up to 64-150. A third of the coroutines STOP THEMSELVES from inside their own step (kill of the own generator, then a yield) instead of returning: they are never resumed and every other runnable coroutine still gets exactly its one step, in that frame and afterwards. '
        'Non-trivial = >= 2 coroutines whose waits overlap in '
        'time with different deadlines and at least one frame in which the wait queue empties while another '
        'coroutine waits again later. Distinct = sha1 of canonical JSON (enumerated cases are distinct by '
        'construction and counted separately in enumerated_nontrivial, added to distinct_nontrivial).')
ASSUMPTIONS = [
    'all dt and wait values are multiples of 1/8 with sums < 2**10, so binary floating point is exact',
    'the order in which several coroutines woken in the same frame run is not fixed by the property',
    'a coroutine started from inside a frame may get its first step in that frame or in the next one',
]
FINDINGS = {}
YIELDS = [None, 0, -1, 0.125, 0.5, 1, 1.5, 2.5, 4, 0.25]


class Seconds(float):
    """a float subclass, as a units library would provide"""


def decode_script(p):
    cyclic = p % 2
    p //= 2
    n = 1 + p % 5
    p //= 5
    vals = []
    for _ in range(n):
        vals.append(YIELDS[p % len(YIELDS)])
        p //= len(YIELDS)
    return {'cyclic': bool(cyclic), 'yields': vals}


def decode_start(p):
    # kind 0: from outside before frame f; kind 1: from inside coroutine j at its step k
    if p % 3 == 2:
        return ['inside', (p // 3) % 5, (p // 15) % 4]
    return ['outside', (p // 3) % 6]


def strategy():
    # num: how the coroutine writes its waits - 0/1 plain int/float, 2 fractions.Fraction, 3 a float subclass
    # stop: 1 = instead of returning (or, cyclic, after two rounds) the coroutine stops ITSELF from inside its step
    co = st.tuples(worldops.packed(2 * 5 * 10 ** 5), worldops.packed(3600)).map(
        lambda t: {'script': decode_script(t[0]), 'start': decode_start(t[1] % 300), 'num': t[1] // 300 % 4,
                   'stop': int(t[1] // 1200 == 2)})
    return st.fixed_dictionaries({
        'cos': st.lists(co, min_size=1, max_size=5),
        # kill immediately followed by start (between two frames) of a running coroutine: it carries on, a waiting
        # one is due in the next frame - and nobody else's schedule changes
        'restarts': st.lists(st.integers(0, 24 * 5 - 1).map(lambda p: [p % 24, p // 24]), max_size=3),
        # population scale: 0, or the number of coroutines the generated ones are multiplied up to
        'amp': worldops.size_amp(),
        'dts': worldops.chunked(st.integers(0, 24).map(lambda k: k / 8 if k < 17 else (k - 16) * 1.0), 25,
                                chunk=5).map(lambda l: l if len(l) >= 3 else l + [0.5] * (3 - len(l)))})


def check_schedule(cos, dts, restarts=(), frac_dt=False):
    """Run the implementation on the schedule and compare with the reference model.

    cos: list of {'script': {'cyclic', 'yields'}, 'start': ['outside', f] | ['inside', j, k]}
    Returns (facts dict) or raises PropertyViolation."""
    proc = desper.CoroutineProcessor()
    n = len(cos)
    log = []                    # (coroutine, step) of the current frame, in execution order
    started_inside = []         # coroutines started from inside during the current frame
    gens = [None] * n
    inside_triggers = collections.defaultdict(list)
    outside_start = {}
    for i, c in enumerate(cos):
        if c['start'][0] == 'inside' and n > 1:
            j = c['start'][1] % n
            if j == i:
                j = (i + 1) % n
            inside_triggers[(j, c['start'][2])].append(i)
        elif c['start'][0] == 'inside':
            outside_start[i] = 0
        else:
            outside_start[i] = c['start'][1]
    started = [False] * n

    def stop_at(i):
        sc = cos[i]['script']
        return 2 * len(sc['yields']) + 1 if sc['cyclic'] else len(sc['yields'])

    def body(i):
        ys = cos[i]['script']['yields']
        cyclic = cos[i]['script']['cyclic']
        step = 0
        while True:
            log.append((i, step))
            for k in inside_triggers.get((i, step), ()):
                if not started[k]:
                    started[k] = True
                    started_inside.append(k)
                    proc.start(gens[k])
            if cos[i].get('stop') and step >= stop_at(i):
                # the coroutine stops itself: whatever it yields afterwards, it is never resumed - and every other
                # runnable coroutine still gets exactly its one step in this frame and in the following ones
                proc.kill(gens[i])
                yield ys[0]
                log.append((i, 'resumed after it stopped itself'))
                return i
            if step >= len(ys) and not cyclic:
                return i
            y = ys[step % len(ys)]
            step += 1
            num = cos[i].get('num', 0)
            if y is not None and num == 2:
                y = Fraction(y)             # a number all the same: waits are compared and added, never type-tested
            elif y is not None and num == 3:
                y = Seconds(y)
            yield y

    for i in range(n):
        gens[i] = body(i)

    # reference model -------------------------------------------------------------------------------
    NEW, RUN, WAIT, DONE = 'new', 'run', 'wait', 'done'
    state = ['unstarted'] * n
    remaining = [None] * n
    mstep = [0] * n

    def advance_model(i):
        """the coroutine executes one step in the model; returns the (i, step) it logs."""
        ys = cos[i]['script']['yields']
        cyclic = cos[i]['script']['cyclic']
        s = mstep[i]
        rec = (i, s)
        if cos[i].get('stop') and s >= stop_at(i):
            state[i] = DONE
            facts['coroutine_stopped_itself'] += 1
            if any(state[j] in (RUN, NEW) or j in pending_must for j in range(n) if j != i):
                facts['stopped_itself_with_other_runnable_coroutines'] += 1
            return rec
        if s >= len(ys) and not cyclic:
            state[i] = DONE
            return rec
        y = ys[s % len(ys)]
        mstep[i] = s + 1
        if y is not None and y > 0:
            state[i] = WAIT
            remaining[i] = Fraction(y)
        else:
            state[i] = RUN
        return rec

    facts = collections.Counter()
    pending_must = set()
    prev_order = []
    for f, dt in enumerate(dts):
        for i in range(n):
            if outside_start.get(i) == f and not started[i]:
                started[i] = True
                proc.start(gens[i])
                state[i] = NEW
        restarted = set()
        for (rf, ri) in restarts:
            i = ri % n
            if rf == f and started[i] and state[i] in (RUN, WAIT, NEW, 'new_inside'):
                try:
                    proc.kill(gens[i])
                    proc.start(gens[i])
                except Exception as exc:
                    raise PropertyViolation('kill_then_start_of_a_running_coroutine_raised',
                                            {'frame': f, 'coroutine': i, 'exception': repr(exc)})
                if state[i] == WAIT:
                    state[i] = RUN
                    remaining[i] = None
                restarted.add(i)
                facts['restart_between_frames'] += 1
        del log[:]
        del started_inside[:]
        waiting_before = [i for i in range(n) if state[i] == WAIT]
        try:
            proc.process(Fraction(dt) if frac_dt else dt)
        except Exception as exc:
            raise PropertyViolation('process_raised', {'frame': f, 'exception': repr(exc)})
        # model: who must run in this frame
        must = []
        for i in range(n):
            if state[i] == WAIT:
                remaining[i] -= Fraction(dt)
                if remaining[i] <= 0:
                    must.append(i)
                    facts['woken'] += 1
            elif state[i] in (RUN, NEW):
                must.append(i)
        # runnable in the previous frame already (a coroutine restarted just now may have changed its place)
        carried = [i for i in range(n) if state[i] == RUN and i not in restarted]
        new_inside_prev = [i for i in range(n) if state[i] == 'new_inside']
        must += new_inside_prev
        expected = collections.Counter()
        pending_must = set(must)
        for i in must:
            pending_must.discard(i)
            expected[advance_model(i)] += 1
        pending_must = set()
        got = collections.Counter(log)
        # coroutines started from inside this frame: 0 or 1 step now, exactly one next frame
        for k in started_inside:
            if got.get((k, 0), 0) == 1:
                expected[advance_model(k)] += 1
                facts['inside_start_ran_same_frame'] += 1
            else:
                state[k] = 'new_inside'
                facts['inside_start_ran_next_frame'] += 1
        if got != expected:
            raise PropertyViolation('frame_executes_exactly_the_due_coroutine_steps', {
                'frame': f, 'dt': dt, 'executed': sorted(got.elements()), 'expected': sorted(expected.elements()),
                'waiting_before': waiting_before})
        # relative order of coroutines that were runnable (not waiting, not new) in the previous frame too
        order_now = [i for (i, _s) in log if i in carried]
        order_prev = [i for i in prev_order if i in carried]
        if order_now != order_prev:
            raise PropertyViolation('runnable_coroutines_keep_their_relative_order', {
                'frame': f, 'previous': order_prev, 'now': order_now})
        prev_order = [i for (i, _s) in log if state[i] == RUN]
        still_waiting = [i for i in range(n) if state[i] == WAIT]
        if facts['wait_queue_emptied'] and still_waiting:
            facts['waits_again_after_queue_emptied'] += 1
        if waiting_before and not still_waiting:
            facts['wait_queue_emptied'] += 1
        if len({remaining[i] for i in still_waiting}) >= 2:
            facts['overlapping_waits_different_deadlines'] += 1
        if inside_triggers:
            facts['has_inside_start'] = 1
    return facts


def run_case(case):
    # every dt of the case is a Fraction when the first coroutine writes Fractions and the history is odd-sized
    frac_dt = case['cos'][0].get('num', 0) == 2 and len(case['dts']) % 2 == 1
    cos = case['cos']
    if case.get('amp'):
        # many coroutines: copies of the generated ones (same scripts, same starts), enough of them to have far more
        # than 64 / 128 waiting at the same time
        cos = (cos * (case['amp'] // len(cos) + 1))[:case['amp'] + len(cos)]
    facts = check_schedule(cos, case['dts'], [tuple(r) for r in case.get('restarts', ())], frac_dt)
    if case.get('amp'):
        facts['amplified_population'] = 1
    if any(c.get('num', 0) >= 2 for c in case['cos']):
        facts['non_builtin_number_waits'] = 1
    if frac_dt:
        facts['fraction_dt'] = 1
    nontrivial = (len(case['cos']) >= 2 and facts['overlapping_waits_different_deadlines']
                  and facts['waits_again_after_queue_emptied'])
    return {'nontrivial': bool(nontrivial), 'classes': sorted(k for k, v in facts.items() if v),
            'steps': len(case['dts'])}


# ---------------------------------------------------------------------------------------------------------
# exhaustive sub-spaces (thorough tier; a thin slice in the quick tier)

EX_YIELDS = [None, 0.5, 1, 2.5]
EX_DTS = [0, 0.5, 1, 3]


def _scripts(maxlen):
    out = []
    for L in range(1, maxlen + 1):
        out.extend(itertools.product(EX_YIELDS, repeat=L))
    return out


def exhaustive(tier, shard, nshards, judge):
    spaces = []
    if tier == 'thorough':
        spaces.append(('A: 2 coroutines x scripts of length 1..3 over {None,1/2,1,5/2} x start of the second in '
                       'frame 0..2 x dt in {0,1/2,1,3}^4', 2, 3, 4, (0, 1, 2)))
        spaces.append(('B: 3 coroutines x scripts of length 1..2 over {None,1/2,1,5/2} x all started in frame 0 x '
                       'dt in {0,1/2,1,3}^4', 3, 2, 4, (0,)))
    else:
        spaces.append(('Q: 2 coroutines x scripts of length 1..2 over {None,1/2,1,5/2} x start of the second in '
                       'frame 0..1 x dt in {0,1/2,1,3}^3', 2, 2, 3, (0, 1)))
    total = 0
    nontrivial = 0
    for name, nco, maxlen, ndt, starts in spaces:
        scripts = _scripts(maxlen)
        combos = itertools.product(*([scripts] * nco))
        for idx, combo in enumerate(combos):
            if idx % nshards != shard:
                continue
            for s in starts:
                cos = [{'script': {'cyclic': False, 'yields': list(sc)},
                        'start': ['outside', 0 if k == 0 else s]} for k, sc in enumerate(combo)]
                for dts in itertools.product(EX_DTS, repeat=ndt):
                    try:
                        facts = check_schedule(cos, dts)
                    except PropertyViolation:
                        judge({'cos': cos, 'dts': list(dts)})    # re-raises through the normal path
                        raise
                    total += 1
                    if facts['overlapping_waits_different_deadlines'] and facts['waits_again_after_queue_emptied']:
                        nontrivial += 1
        judge.stats.exhaustive.append(name)
    judge.stats.evaluations += total
    judge.stats.executions += total
    judge.stats.extra['enumerated_cases'] = judge.stats.extra.get('enumerated_cases', 0) + total
    judge.stats.extra['enumerated_nontrivial'] = judge.stats.extra.get('enumerated_nontrivial', 0) + nontrivial
