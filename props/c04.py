"""C04 - Disabled dispatchers defer events and release them once, in order (DESIGN 3/C04).

Level: fault enumeration.  For every generated base history the check first runs it fault-free and counts the
callback deliveries M; it then re-runs the history once for every pair (delivery position k < M, fault kind) and
appends the closing sequence ``enable; dispatch; enable; dispatch; enable``.
"""
import collections
import gc

import desper
from hypothesis import strategies as st

from vlib.core import PropertyViolation, with_budget, StepBudgetExceeded
from vlib import worldops

ID = 'C04'
LEVEL = 'fault_enumeration'
BUDGET = {'quick': 250, 'thorough': 1500}
RULE = ('Hypothesis-generated base histories (dispatch / disable / enable / add_handler / remove_handler over 1-4 '
        'recorder handlers listening to subsets of 4 event names, on a plain EventDispatcher or on a World used '
        'as dispatcher; in some cases every dispatch issued while disabled is repeated 64-150 times: long backlogs, '
        'faults then at sampled positions around the powers of two, counted globally and from the start of the long release). Each base history is executed fault-free and then once for EVERY pair (global delivery '
        'position k, fault in {raise RuntimeError, raise Quit, raise SwitchWorld, set dispatch_enabled=False, '
        're-entrant dispatch_enabled=True, disable-then-enable inside the callback, disable and dispatch a further '
        'event inside the callback, register another handler inside the callback, remove another handler inside the callback}), '
        'followed by enable; dispatch; enable; dispatch; enable. Oracle = trace invariants: an event dispatched while '
        'dispatching is enabled (also after a release cut short by an exception) reaches its listeners at once; no '
        'callback while disabled (except the remaining listeners of the very occurrence during which a callback '
        'disabled dispatching), never the same (occurrence, listener) twice, released occurrences reach each '
        'listener in dispatch order, every normally returning enable that leaves dispatching enabled has '
        'delivered every pending occurrence (whose name had a listener when dispatched) to every handler '
        'registered then, an injected exception leaves the assignment as the same object, and every enabling '
        'assignment stays within a deterministic budget of executed lines. evaluations = base histories, '
        'implementation_executions = runs incl. fault positions. '
        'In half of the cases a SECOND dispatcher (same kind) lives next to the one under test, with one listener of all four names and events of its own at every step - disabled throughout and enabled at the end, enabled throughout, or enabled-and-disabled again every fourth step: it delivers exactly its own occurrences once, in order, and nothing of it shows in the dispatcher under test. Handlers may be forgotten by the program (garbage-collected while events are pending) and replaced by new handler objects, registered later or at once; a callback may disable dispatching and dispatch a further event. '
        'Non-trivial = a base history with a release of '
        '>= 2 pending occurrences and (>= 2 listeners for one of them or >= 2 fault positions inside a release). '
        'Distinct = sha1 of the canonical JSON of the base history.')
ASSUMPTIONS = [
    'for the occurrence that was being delivered when a callback raised or disabled dispatching, the listeners '
    'not yet reached may or may not receive it later (0 or 1 deliveries)',
    'events dispatched while enabled are not ordered relative to a backlog left behind by an exception',
    'occurrences whose name had no listener when they were dispatched may or may not be delivered',
    'callbacks do not add or remove handlers (that is C03), except for the two injected faults that do exactly that: '
    'a handler registered by a callback is owed the occurrences dispatched after the one being delivered, a handler '
    'removed by a callback may still get the occurrence being delivered and nothing after it',
    'in runs whose injected fault is a re-entrant enable (or disable-then-enable) from a callback the per-listener '
    'dispatch order is not judged (the nested release overtakes the outer one by construction)',
    'enable runs under a budget of 100000 executed lines inside desper (normal releases need < 1000)',
]
FINDINGS = {}
EVENTS = ['a', 'b', 'c', 'd']
FAULTS = ['RuntimeError', 'Quit', 'SwitchWorld', 'disable', 'enable', 'toggle', 'disable_dispatch', 'register',
          'unregister']
ENABLE_BUDGET = 100000
CLOSING = [['enable'], ['dispatch', 0], ['enable'], ['dispatch', 5], ['enable']]


class Boom(RuntimeError):
    pass


class BoomKey(Boom, KeyError):
    """user code often fails with a built-in exception type (a failed lookup...): it means nothing to the dispatcher"""


class BoomAttribute(Boom, AttributeError):
    pass


class BoomStop(Boom, StopIteration):
    pass


BOOMS = [Boom, BoomKey, BoomAttribute, BoomStop]


class Tok:
    """Payload of one dispatched occurrence.  Occurrences of the same event compare (and hash) EQUAL although
    they are distinct objects: two equal events dispatched one after the other are still two events."""

    def __init__(self, n, ev):
        self.n, self.ev = n, ev

    def __eq__(self, other):
        return isinstance(other, Tok) and other.ev == self.ev

    def __hash__(self):
        return hash(self.ev)

    def __repr__(self):
        return 'Tok(%d,%s)' % (self.n, self.ev)


def decode_op(t):
    sel, p = t
    kind = ('dispatch', 'dispatch', 'dispatch', 'dispatch', 'dispatch', 'dispatch', 'disable', 'disable', 'enable',
            'enable', 'add', 'add', 'remove', 'spawn', 'forget', 'forget')[sel % 16]
    if kind == 'forget':
        return ['forget', p % 4, p // 4 % 2]
    if kind == 'spawn':
        return ['spawn', p % 3]
    if kind == 'dispatch':
        return ['dispatch', p]
    if kind in ('add', 'remove'):
        return [kind, p % 4]
    return [kind]


def strategy():
    op = st.tuples(st.integers(0, 15), st.integers(0, 15)).map(decode_op)
    return st.fixed_dictionaries({
        'kind': st.integers(0, 1),
        'handlers': st.lists(st.integers(1, 15), min_size=1, max_size=4),
        'reg': st.integers(0, 15),
        'ops': worldops.chunked(op, 30),
        # scale: 0, or how many times every dispatch issued while dispatching is disabled is repeated (long backlogs)
        'amp': worldops.size_amp(none=18),
        # a second dispatcher living next to the one under test: 0 none, 1 disabled throughout (own backlog, enabled
        # at the very end), 2 enabled throughout, 3 disabled but enabled-and-disabled-again every few steps
        'other': st.integers(0, 5).map(lambda v: v if v <= 3 else 0)})


def _make_cb(ev):
    def cb(self, token):
        self._run.on_cb(self, ev, token)
    cb.__name__ = ev
    return cb


def make_handler(run, ix, mask):
    evs = [e for i, e in enumerate(EVENTS) if mask >> i & 1]
    ns = {'__events__': {e: e for e in evs}}
    for e in evs:
        ns[e] = _make_cb(e)
    if (mask + ix) % 3 == 0:
        ns['__bool__'] = lambda self: False      # a falsy handler is a handler all the same
    h = type('L%d' % ix, (), ns)()
    h._run = run
    h.ix = ix
    h.evs = set(evs)
    return h


class OtherTok:
    """argument of the events dispatched through the neighbouring dispatcher"""
    def __init__(self, n, ev):
        self.n, self.ev = n, ev

    def __repr__(self):
        return 'OtherTok(%d,%s)' % (self.n, self.ev)


class Witness:
    """the one listener of the neighbouring dispatcher (all four event names)"""
    __events__ = {e: e for e in EVENTS}

    def __init__(self, run):
        self._run = run
        self.got = []

    def _cb(self, ev, tok):
        if not isinstance(tok, OtherTok) or tok.ev != ev:
            self._run.viol('neighbouring_dispatcher_delivered_an_occurrence_that_is_not_its_own', event=ev,
                           argument=repr(tok))
        if not self._run.other_enabled:
            self._run.viol('neighbouring_dispatcher_ran_a_callback_while_disabled', argument=repr(tok))
        self.got.append(tok.n)

    def a(self, tok):
        self._cb('a', tok)

    def b(self, tok):
        self._cb('b', tok)

    def c(self, tok):
        self._cb('c', tok)

    def d(self, tok):
        self._cb('d', tok)


class SpawnComp:
    """component whose on_add is a delivery like any other (World mode): create_entity calls it directly while
    dispatching is enabled and relays it through the queue while it is disabled"""
    __events__ = {'on_add': 'on_add'}
    evs = frozenset(['on_add'])

    def __init__(self, run, ix, tok):
        self._run, self.ix, self.tok = run, ix, tok

    def on_add(self, entity, world):
        self._run.on_cb(self, 'on_add', self.tok)


class Execution:
    """One run of a base history with at most one injected fault."""

    def __init__(self, case, fault):
        self.case = case
        self.fault = fault              # None or (k, kind)
        self.flags = collections.Counter()
        self.deliveries = 0
        self.log = []                   # (token, handler ix)
        self.delivered = set()
        self.step_ix = -1
        self.enabled = True
        self.queued = {}                # token -> {'event', 'must': bool}  occurrences dispatched while disabled
        self.incomplete = []            # queued must-occurrences not yet known complete, in dispatch order
        self.fault_token = None         # occurrence during which the fault fired
        self.tolerate_token = None      # occurrence during which a callback disabled dispatching
        self.last_token_per_handler = {}
        self.current_exc = None
        self.big_release_at = None
        self.added_at = {}              # handler registered by a callback -> occurrence during which that happened
        self.removed_at = {}
        self.in_release = False
        self.release_positions = 0
        self.max_pending_at_release = 0
        self.listeners_at_release = 0

    def viol(self, clause, **d):
        d['step'] = self.step_ix
        d['fault'] = list(self.fault) if self.fault else None
        if self.fault:
            d['fault_kind'] = FAULTS[self.fault[1]]
        ops = self.case['ops'] + CLOSING
        d['op'] = ops[self.step_ix] if 0 <= self.step_ix < len(ops) else None
        d['log'] = self.log[-12:]
        raise PropertyViolation(clause, d)

    # ---- callbacks ----------------------------------------------------------------------------------
    def on_cb(self, h, ev, tok):
        if isinstance(tok, OtherTok):
            self.viol('occurrence_dispatched_through_another_dispatcher_was_delivered_here', handler=h.ix,
                      argument=repr(tok))
        token = tok.n if isinstance(tok, Tok) else None
        k = self.deliveries
        self.deliveries += 1
        if self.in_release:
            self.release_positions += 1
        if h.ix not in self.registered and not (h.ix in self.removed_at and self.removed_at[h.ix] == token):
            # (a handler removed by a callback may or may not still get the occurrence during which it was removed)
            self.viol('callback_for_unregistered_handler', handler=h.ix, token=token)
        if ev not in h.evs or self.events_of.get(token) != ev:
            self.viol('callback_on_wrong_method_or_with_foreign_argument', handler=h.ix, event=ev, token=token)
        if not self.enabled and token != self.tolerate_token:
            self.viol('callback_ran_while_dispatching_was_disabled', handler=h.ix, token=token)
        if (token, h.ix) in self.delivered:
            self.viol('occurrence_delivered_twice_to_the_same_listener', handler=h.ix, token=token)
        self.delivered.add((token, h.ix))
        self.log.append((token, h.ix))
        if token in self.queued and not (self.fault and FAULTS[self.fault[1]] in ('enable', 'toggle')):
            last = self.last_token_per_handler.get(h.ix, -1)
            if token < last:
                self.viol('released_occurrences_out_of_dispatch_order', handler=h.ix, token=token, after=last)
            self.last_token_per_handler[h.ix] = token
        if self.fault is not None and k == self.fault[0]:
            kind = FAULTS[self.fault[1]]
            self.fault_token = token
            self.flags['fault_fired'] += 1
            if self.in_release:
                self.flags['fault_in_release'] += 1
            if kind == 'disable':
                self.d.dispatch_enabled = False
                self.enabled = False
                self.tolerate_token = token
            elif kind == 'disable_dispatch':
                # the callback disables dispatching and, before it returns, dispatches a further event: that newer
                # occurrence waits BEHIND whatever was still pending
                self.d.dispatch_enabled = False
                self.enabled = False
                self.tolerate_token = token
                self._in_bulk = True            # (no amplification of this one)
                try:
                    self.op_dispatch(12 + EVENTS.index(ev) if ev in EVENTS else 12)
                finally:
                    self._in_bulk = False
            elif kind in ('register', 'unregister'):
                # "...to the handlers registered at delivery time": the callback changes who is registered while
                # further occurrences are pending - a handler registered now is owed every LATER occurrence of its
                # events (this one: 0 or 1), a handler removed now gets none of them
                ids = sorted(i for i in self.handlers if i < 100)
                if kind == 'register':
                    cands = [i for i in ids if i not in self.registered]
                    if cands:
                        j = cands[k % len(cands)]
                        self.d.add_handler(self.handlers[j])
                        self.registered.add(j)
                        self.added_at[j] = token
                        self.removed_at.pop(j, None)
                        self.flags['handler_registered_by_a_callback'] += 1
                else:
                    cands = [i for i in ids if i in self.registered and i != h.ix]
                    if cands:
                        j = cands[k % len(cands)]
                        self.d.remove_handler(self.handlers[j])
                        self.registered.discard(j)
                        self.removed_at[j] = token
                        self.flags['handler_removed_by_a_callback'] += 1
            elif kind in ('enable', 'toggle'):
                # re-entrant enabling from a callback (toggle: disable first).  The nested release legitimately
                # hands later occurrences to listeners that have not yet seen the current one, so dispatch order
                # is not judged in these runs; never-twice, no-loss and termination are.
                if kind == 'toggle':
                    self.d.dispatch_enabled = False
                    self.enabled = False
                self.set_enabled_nested()
            else:
                # (no local variable may hold the exception: exception -> traceback -> this frame -> local would be
                # a reference cycle that keeps the handler of this frame alive until the next cycle collection)
                if kind == 'RuntimeError':
                    self.current_exc = BOOMS[k % len(BOOMS)]('injected')
                elif kind == 'Quit':
                    self.current_exc = desper.Quit()
                else:
                    self.current_exc = desper.SwitchWorld(desper.Handle())
                raise self.current_exc

    def set_enabled_nested(self):
        self.enabled = True
        self.tolerate_token = None
        try:
            with_budget(ENABLE_BUDGET, setattr, self.d, 'dispatch_enabled', True)
        except PropertyViolation:
            raise
        except StepBudgetExceeded as exc:
            self.viol('enabling_assignment_does_not_terminate', error=str(exc), nested=True)
        except RecursionError as exc:
            self.viol('enabling_assignment_does_not_terminate', error=repr(exc), nested=True)
        except Exception as exc:
            self.viol('nested_enable_raised', exception=repr(exc))

    # ---- ops ----------------------------------------------------------------------------------------
    def guarded(self, fn, what):
        """run an implementation call; an injected exception must come out as the same object."""
        try:
            return fn()
        except PropertyViolation:
            raise
        except StepBudgetExceeded:
            raise
        except BaseException as exc:
            if self.current_exc is not None and exc is self.current_exc:
                self.current_exc = None
                self.flags['exception_propagated'] += 1
                return 'raised'
            self.viol('unexpected_exception_from_' + what, exception=repr(exc),
                      injected=repr(self.current_exc))

    def choose_event(self, sel):
        # operand values < 12 prefer events that currently have listeners (several if possible)
        ev = EVENTS[sel % 4]
        if sel < 12:
            n = {e: sum(1 for h in self.registered if e in self.handlers[h].evs) for e in EVENTS}
            for least in (2, 1):
                cands = [e for e in EVENTS if n[e] >= least]
                if cands:
                    ev = cands[sel % len(cands)]
                    break
        return ev

    def op_dispatch(self, sel):
        if (self.case.get('amp') and self.enabled and sel % 2 and not getattr(self, '_in_bulk', False)
                and self.step_ix < len(self.case['ops'])):
            self.op_disable()           # long backlogs need a disabled dispatcher: half of the dispatches see to it
        if self.case.get('amp') and not self.enabled and not getattr(self, '_in_bulk', False):
            # a long backlog: the dispatch is repeated (each repetition an occurrence of its own).
            # "...to the handlers registered at delivery time": first one occurrence of every other event that has
            # listeners joins the backlog; while the backlog grows those listeners are away (removed), and they
            # are registered again before anything is released
            self._in_bulk = True
            this_ev = self.choose_event(sel)
            try:
                for zi, z in enumerate(EVENTS):
                    if z != this_ev and any(z in self.handlers[h].evs for h in self.registered if h < 100):
                        self.op_dispatch(12 + zi)
                waiting = {self.queued[t]['event'] for t in self.incomplete if t in self.queued}
                away = [h for h in sorted(self.registered) if h < 100
                        and (self.handlers[h].evs & (waiting - {this_ev}))]
                for h in away:
                    self.op_remove(h)
                sel_this = 12 + EVENTS.index(this_ev)
                for _ in range(self.case['amp'] - 1):
                    self.op_dispatch(sel_this)
                for h in away:
                    self.op_add(h)
            finally:
                self._in_bulk = False
            self.flags['long_backlog'] += 1
            if away:
                self.flags['listeners_away_while_the_backlog_grew'] += 1
            sel = 12 + EVENTS.index(this_ev)
        ev = self.choose_event(sel)
        token = self.next_token
        self.next_token += 1
        self.events_of[token] = ev
        listeners = [h for h in self.registered if h < 100 and ev in self.handlers[h].evs]
        if not self.enabled:
            self.queued[token] = {'event': ev, 'must': bool(listeners)}
            if listeners:
                self.incomplete.append(token)
        was_enabled, faults_before = self.enabled, self.flags['fault_fired']
        r = self.guarded(lambda: self.d.dispatch(ev, Tok(token, ev)), 'dispatch')
        if self.current_exc is not None and r != 'raised':
            self.viol('injected_exception_swallowed_by_dispatch', injected=repr(self.current_exc))
        if was_enabled and self.enabled and r != 'raised' and self.flags['fault_fired'] == faults_before:
            # dispatching is enabled (whatever happened before - also after a release that a callback cut short
            # by raising): the event reaches its listeners now, it is not silently put aside
            for h in listeners:
                if (token, h) not in self.delivered:
                    self.viol('event_dispatched_while_enabled_not_delivered_at_once', event=ev, token=token,
                              handler=h, reads_enabled=bool(self.d.dispatch_enabled))
            if listeners:
                self.flags['enabled_dispatch_after_a_fault' if faults_before else 'enabled_dispatch'] += 1

    def op_disable(self):
        self.guarded(lambda: setattr(self.d, 'dispatch_enabled', False), 'disabling')
        self.enabled = False
        self.tolerate_token = None

    def op_enable(self):
        pending_now = [t for t in self.incomplete]
        if len(pending_now) >= 2:
            self.flags['release_of_two_or_more'] += 1
            for t in pending_now:
                if len(self.listeners(t)) >= 2:
                    self.flags['release_two_plus_with_two_listeners'] += 1
                    break
        self.enabled = True
        self.tolerate_token = None
        self.in_release = True
        if len(pending_now) >= 40 and self.big_release_at is None:
            self.big_release_at = self.deliveries       # global delivery position at which a long release starts
            self.flags['long_release'] += 1

        def call():
            return with_budget(ENABLE_BUDGET, setattr, self.d, 'dispatch_enabled', True)
        try:
            r = self.guarded(call, 'enabling')
        except StepBudgetExceeded as exc:
            self.viol('enabling_assignment_does_not_terminate', error=str(exc))
        finally:
            self.in_release = False
        if self.current_exc is not None and r != 'raised':
            self.viol('injected_exception_swallowed_by_enabling', injected=repr(self.current_exc))
        if r == 'raised' or not self.enabled:
            # the release stopped early (exception, or a callback disabled dispatching again): occurrences that
            # already reached every handler registered now are complete, the one being delivered when it
            # stopped is tolerated (0 or 1 further deliveries), the others stay pending
            self.incomplete = [t for t in self.incomplete if t != self.fault_token and any(
                (t, h) not in self.delivered for h in self.listeners(t))]
            return
        # a normally returning enable that leaves dispatching enabled: everything pending must be complete
        for t in self.incomplete:
            ev = self.queued[t]['event']
            for h in self.listeners(t):
                if (t, h) not in self.delivered and t != self.fault_token:
                    self.viol('pending_occurrence_not_delivered_before_enable_returned', token=t, event=ev,
                              handler=h)
        self.incomplete = []

    def listeners(self, t):
        """handler ids that must get occurrence t if it is delivered now"""
        q = self.queued[t]
        if q.get('only') is not None:
            return [q['only']] if q['only'] in self.registered else []
        return [h for h in self.registered if q['event'] in self.handlers[h].evs
                and not (h in self.added_at and self.added_at[h] is not None and t <= self.added_at[h])]

    def op_spawn(self, n):
        """World mode: one create_entity call with 1-3 handler components; each on_add is an occurrence of its own"""
        if not self.case['kind']:
            return
        comps = []
        for _ in range(1 + n % 3):
            hix = 100 + self.spawned
            self.spawned += 1
            token = self.next_token
            self.next_token += 1
            self.events_of[token] = 'on_add'
            comp = SpawnComp(self, hix, Tok(token, 'on_add'))
            self.handlers[hix] = comp
            self.registered.add(hix)
            if not self.enabled:
                self.queued[token] = {'event': 'on_add', 'must': True, 'only': hix}
                self.incomplete.append(token)
            comps.append(comp)
        self.keep.append(comps)
        self.flags['spawn'] += 1
        r = self.guarded(lambda: self.d.create_entity(*comps), 'create_entity')
        if self.current_exc is not None and r != 'raised':
            self.viol('injected_exception_swallowed_by_create_entity', injected=repr(self.current_exc))

    def op_add(self, hix):
        hix = self.slot[hix % self.nfixed] if hix < 50 else hix
        self.guarded(lambda: self.d.add_handler(self.handlers[hix]), 'add_handler')
        self.registered.add(hix)

    def op_remove(self, hix):
        hix = self.slot[hix % self.nfixed] if hix < 50 else hix
        self.guarded(lambda: self.d.remove_handler(self.handlers[hix]), 'remove_handler')
        self.registered.discard(hix)

    def op_forget(self, sel, again=0):
        """the program drops its last reference to a handler (nobody calls remove_handler): the dispatcher held it
        weakly, it is gone - a NEW handler object listening to the same events takes its slot and may be
        registered later; what is pending then reaches it like any handler registered at delivery time"""
        slot = sel % self.nfixed
        old = self.slot[slot]
        if self.replacements >= 40:
            return
        new = 50 + self.replacements
        self.replacements += 1
        mask = self.case['handlers'][slot]
        self.handlers[new] = make_handler(self, new, mask)
        self.slot[slot] = new
        was_registered = old in self.registered
        self.registered.discard(old)
        del self.handlers[old]
        # (reference counting frees it at once: handlers are not part of reference cycles)
        if was_registered:
            self.flags['registered_handler_garbage_collected'] += 1
            if self.incomplete:
                self.flags['handler_collected_while_events_pending'] += 1
            if again:
                # the program registers the new object at once (a hot-reloaded listener): whatever is pending reaches
                # it when dispatching is enabled again
                self.op_add(slot)
                self.flags['collected_handler_replaced_at_once'] += 1

    def run(self):
        self.d = desper.World() if self.case['kind'] else desper.EventDispatcher()
        self.handlers = {i: make_handler(self, i, m) for i, m in enumerate(self.case['handlers'])}
        self.nfixed = len(self.handlers)
        self.slot = {i: i for i in range(self.nfixed)}     # slot -> id of the handler object that fills it now
        self.replacements = 0
        self.spawned = 0
        self.keep = []
        self.registered = set()
        self.next_token = 0
        self.events_of = {}
        for i in range(self.nfixed):
            if self.case['reg'] >> i & 1:
                self.op_add(i)
        self.other_mode = self.case.get('other', 0)
        if self.other_mode:
            # every dispatcher has a backlog of its own: what happens to this one never shows in its neighbour
            self.other = desper.World() if self.case['kind'] else desper.EventDispatcher()
            self.witness = Witness(self)
            self.other.add_handler(self.witness)
            self.other_sent = []
            self.other_enabled = self.other_mode == 2
            self.other.dispatch_enabled = self.other_enabled
            self.flags['neighbouring_dispatcher'] += 1
        ops = self.case['ops'] + CLOSING
        for self.step_ix, op in enumerate(ops):
            if self.other_mode:
                self.neighbour_step()
            getattr(self, 'op_' + op[0])(*op[1:])
        if not self.d.dispatch_enabled:
            self.viol('dispatcher_not_enabled_after_closing_enable')
        if self.other_mode:
            self.neighbour_enable()
            if self.flags['neighbour_released_a_backlog'] and (self.queued or self.flags['fault_fired']):
                self.flags['neighbour_backlog_beside_a_backlog_here'] += 1
        return self

    def neighbour_step(self):
        if self.other_mode == 3 and self.step_ix % 4 == 3:
            self.neighbour_enable()
            self.other.dispatch_enabled = False
            self.other_enabled = False
        n = len(self.other_sent)
        ev = EVENTS[(n + self.step_ix) % 4]
        self.other_sent.append(n)
        try:
            self.other.dispatch(ev, OtherTok(n, ev))
        except PropertyViolation:
            raise
        except Exception as exc:
            self.viol('dispatch_on_the_neighbouring_dispatcher_raised', exception=repr(exc))
        self.neighbour_verdict('a dispatch on it')

    def neighbour_enable(self):
        was = self.other_enabled
        self.other_enabled = True
        pending = len(self.other_sent) - len(self.witness.got)
        try:
            self.other.dispatch_enabled = True
        except PropertyViolation:
            raise
        except Exception as exc:
            self.viol('enabling_the_neighbouring_dispatcher_raised', exception=repr(exc))
        if not was and pending:
            self.flags['neighbour_released_a_backlog'] += 1
        self.neighbour_verdict('enabling it')

    def neighbour_verdict(self, after):
        want = self.other_sent if self.other_enabled else self.other_sent[:len(self.witness.got)]
        if self.witness.got != want or (self.other_enabled and len(want) != len(self.other_sent)):
            self.viol('neighbouring_dispatcher_does_not_deliver_exactly_its_own_occurrences_once_in_order',
                      after=after, enabled=self.other_enabled, got=self.witness.got[-8:],
                      dispatched=self.other_sent[-8:])
        if not self.other_enabled and self.other_mode == 1 and self.witness.got:
            self.viol('neighbouring_dispatcher_ran_a_callback_while_disabled', got=self.witness.got[-8:])


def run_case(case):
    base = Execution(case, None).run()
    m = base.deliveries
    execs = 1
    faults_in_release = 0
    positions = range(m)
    kinds = range(len(FAULTS))
    if case.get('amp') and m > 40:
        # long backlogs: faults are injected at the first and last delivery positions and around the powers of two
        inside = [] if base.big_release_at is None else [base.big_release_at + d for d in
                                                         (0, 1, 2, 31, 62, 63, 64, 65, 66, 127, 128, 129, 130)]
        positions = sorted({k for k in ([0, 1, m - 1] + [b + d for b in (64, 128, 256) for d in (-1, 0, 1)] + inside)
                            if 0 <= k < m})
        kinds = (0, 3, 5, 6)    # RuntimeError, disable, disable-then-enable, disable-and-dispatch
    for k in positions:
        for kind in kinds:
            e = Execution(case, (k, kind)).run()
            execs += 1
            if e.flags['fault_in_release']:
                faults_in_release += 1
    f = base.flags
    nontrivial = f['release_of_two_or_more'] and (f['release_two_plus_with_two_listeners']
                                                  or base.release_positions >= 2)
    classes = sorted(k for k, v in f.items() if v)
    if faults_in_release:
        classes.append('fault_positions_inside_a_release')
    if case['kind']:
        classes.append('world_as_dispatcher')
    return {'nontrivial': bool(nontrivial), 'classes': classes, 'executions': execs, 'steps': len(case['ops'])}
