"""C11 - Resource paths, shadowing and back-links stay consistent (DESIGN 3/C11)."""
import collections

import desper
from hypothesis import strategies as st

from vlib.core import PropertyViolation
from vlib import worldops
from vlib.classes import EqByMode

ID = 'C11'
LEVEL = 'exploration'
BUDGET = {'quick': 1200, 'thorough': 5000}
RULE = ('Hypothesis-generated histories over one root ResourceMap: set(path, value) with plain or /-composed keys '
        'of depth 1-4 over 8 path components (incl. empty string, blank, dotted, non-ASCII), values = fresh '
        'handle / map values (some maps are instances of a ResourceMap subclass; some handles falsy objects, some with value equality - equal-but-distinct, hashable or not - also assigned twice to one path) / empty map / pre-populated map / layered map; clear(map); push_layer(map) (handles.maps.insert(0, '
        '{}) as the directory populator does). Oracle: nested reference model (latest assignment wins, composite '
        'keys turn intermediate names into maps); after EVERY step, for every model path and for absent paths '
        '(extensions, paths through handles, siblings): m[path], chained m[a][b][c] and m.get(path)() denote the '
        'identical resource, get default <=> [] KeyError, handle xor map per name, and every reachable node has '
        'parent/key back-links (walk through public .maps/.handles); after clear(): map empty in all layers, '
        'former direct children detached, map still attached to its own parent. '
        'In ~20% of the cases a push_layer pushes 17-130 layers, re-assigning the handles of the map now and then while the first half piles up. '
        ''
        'A move operation replaces a sub-map by a new empty map, inserts some of the direct children of the replaced map again under the new one (each object still lives in one place of the tree) and then clears the REPLACED map, which is no longer part of the tree: the tree keeps its back-links, the replaced map ends up empty and detaches the children that stayed with it. Some handles refine __call__ (they hand out a view of what they loaded): [] and get()() must still denote the same object. '
        'Non-trivial = a composite-key '
        'assignment creating >= 1 intermediate map, or an assignment replacing a subtree/handle by the other '
        'kind, or a clear of a map holding layered handles or sub-maps. Distinct = sha1 of canonical JSON.')
ASSUMPTIONS = [
    'one map/handle object lives in at most one place of the tree at a time (aliasing and cycles are outside the '
    'quantifier); an object may MOVE: it is inserted again after the sub-tree it lived in was replaced',
    'back-links of shadowed (lower-layer) handles are examined only when their map is cleared',
    'keys are str; split_char stays "/"',
]
FINDINGS = {}
FUZZ_RUNS = 20000      # thorough tier: coverage-guided stage (vlib/fuzz.py), when atheris is installed
NAMES = ['a', 'b', 'c', 'k', '', ' ', 'a.b', 'é']


class H(EqByMode, desper.Handle):
    n = 0

    def __init__(self):
        H.n += 1
        self.tag = H.n
        self.res = ('resource', H.n)

    falsy = False

    def load(self):
        return self.res

    def __bool__(self):
        return not self.falsy       # a falsy handle (think: a handle over an empty batch) is a handle all the same

    def __repr__(self):
        return 'H%d' % self.tag

    @property
    def denotes(self):
        """the resource this handle denotes: what calling it returns"""
        return self.res


class ViewH(H):
    """a handle that refines __call__: it hands out a (fixed) read-only view of what it loaded, not the raw object"""

    def __init__(self):
        super().__init__()
        self.view = ('view of', self.res)

    def __call__(self):
        super().__call__()
        return self.view

    @property
    def denotes(self):
        return self.view


def decode_path(p):
    depth = (1, 1, 2, 2, 3, 4)[p % 6]
    p //= 6
    out = []
    for _ in range(depth):
        out.append(p % 8)
        p //= 8
    return out


def decode_op(t):
    sel, p = t
    kind = ('set', 'set', 'set', 'set', 'set', 'set', 'clear', 'push', 'push', 'setsub', 'twice', 'move', 'reinsert',
            'reinsert')[sel % 14]
    if kind == 'move':
        return ['move', p % 16, (p // 16) % 64]
    if kind == 'reinsert':
        return ['reinsert', p % 32, decode_path((p // 32) % (6 * 4096))]
    if kind == 'set':
        return ['set', decode_path(p % (6 * 4096)), (p // (6 * 4096)) % 8]
    if kind == 'twice':
        return ['twice', decode_path(p % (6 * 4096)), (p // (6 * 4096)) % 2]
    if kind == 'setsub':
        return ['setsub', p % 16, decode_path((p // 16) % (6 * 4096)), (p // (16 * 6 * 4096)) % 8]
    return [kind, p % 16]


def strategy():
    op = st.tuples(st.integers(0, 13), worldops.packed(16 * 6 * 4096 * 8)).map(decode_op)
    # amp: 0, or how many layers every push_layer operation pushes (maps with dozens of handle layers, as repeated
    # population with nesting produces)
    return st.fixed_dictionaries({'ops': worldops.chunked(op, 40),
                                  'amp': worldops.size_amp(none=24, sizes=(17, 33, 34, 40, 70, 130))})


class Atlas(desper.ResourceMap):
    """a program's own kind of resource map (a ResourceMap subclass is a map like any other)"""


class MMap:
    """model of one ResourceMap"""

    def __init__(self, obj):
        self.obj = obj
        self.maps = {}
        self.layers = [{}]

    def visible(self, name):
        for layer in self.layers:
            if name in layer:
                return layer[name]
        return None

    def handle_names(self):
        out = []
        for layer in self.layers:
            for k in layer:
                if k not in out:
                    out.append(k)
        return out


class Run:
    def __init__(self, case):
        self.case = case
        self.root = desper.ResourceMap()
        self.model = MMap(self.root)
        self.flags = collections.Counter()
        self.step_ix = -1
        self.orphans = []

    def viol(self, clause, **d):
        d['step'] = self.step_ix
        d['op'] = self.case['ops'][self.step_ix] if 0 <= self.step_ix < len(self.case['ops']) else None
        raise PropertyViolation(clause, d)

    # ---- model helpers ------------------------------------------------------------------------------
    def all_maps(self):
        out = []

        def rec(mm, path):
            out.append((mm, path))
            for k, sub in mm.maps.items():
                rec(sub, path + [k])
        rec(self.model, [])
        return out

    def make_value(self, kind):
        """returns (real object, model node) - model node is an MMap or the handle itself"""
        if kind in (0, 1, 6, 7):
            h = ViewH() if (kind == 0 and self.step_ix % 4 == 3) else H()
            if isinstance(h, ViewH):
                self.flags['handle_that_refines_call'] += 1
            h.falsy = kind == 1
            if kind >= 6:
                # a handle with value semantics (think of a dataclass handle: equal file name, equal handle):
                # equal-but-distinct handles are distinct values, the latest assignment wins all the same
                h._eqmode = kind - 5
                self.flags['value_equal_handle'] += 1
            return h, h
        if kind == 2:
            m = Atlas() if self.step_ix % 3 == 1 else desper.ResourceMap()
            if isinstance(m, Atlas):
                self.flags['map_of_a_ResourceMap_subclass'] += 1
            return m, MMap(m)
        if kind in (3, 4):      # pre-populated: handle 'p', handle under 'q/r' (implicit intermediate), sub-map 'a'
            m = Atlas() if self.step_ix % 3 == 2 else desper.ResourceMap()
            if isinstance(m, Atlas):
                self.flags['map_of_a_ResourceMap_subclass'] += 1
            mm = MMap(m)
            hp, hr = H(), H()
            m['p'] = hp
            mm.layers[0]['p'] = hp
            m['q/r'] = hr
            q = MMap(m.maps['q'])
            q.layers[0]['r'] = hr
            mm.maps['q'] = q
            if kind == 4:
                sub = desper.ResourceMap()
                m['a'] = sub
                mm.maps['a'] = MMap(sub)
            self.flags['prepopulated_value'] += 1
            return m, mm
        # layered: 'k' shadowed by a newer 'k', plus 'b' only in the lower layer
        m = desper.ResourceMap()
        mm = MMap(m)
        h1, h2, h3 = H(), H(), H()
        m['k'] = h1
        m['b'] = h3
        m.handles.maps.insert(0, {})
        m['k'] = h2
        mm.layers = [{'k': h2}, {'k': h1, 'b': h3}]
        self.flags['layered_value'] += 1
        return m, mm

    def model_set(self, mm, names, node):
        created = 0
        for sub in names[:-1]:
            for layer in mm.layers:
                if sub in layer:
                    self.orphan(layer.pop(sub), mm)
                    self.flags['intermediate_replaces_handle'] += 1
            if sub not in mm.maps:
                mm.maps[sub] = MMap(None)       # object learnt from the implementation afterwards
                created += 1
            mm = mm.maps[sub]
        last = names[-1]
        if isinstance(node, MMap):
            for layer in mm.layers:
                if last in layer:
                    self.orphan(layer.pop(last), mm)
                    self.flags['map_replaces_handle'] += 1
            if last in mm.maps:
                self.flags['map_replaces_map'] += 1
                if mm.maps[last] is not node:
                    self.orphan(mm.maps[last], mm)
            mm.maps[last] = node
        else:
            if last in mm.maps:
                self.flags['handle_replaces_subtree'] += 1
                self.orphan(mm.maps.pop(last), mm)
            if mm.visible(last) is not None:
                self.flags['handle_overwrites_handle'] += 1
            if last in mm.layers[0] and mm.layers[0][last] is not node:
                self.orphan(mm.layers[0][last], mm)
            mm.layers[0][last] = node
        if created:
            self.flags['created_intermediate_maps'] += 1
        return created

    def orphan(self, node, container):
        """a handle or a whole sub-tree that an assignment just replaced: it is not part of the tree any more (the
        program may well hold on to it and insert it again somewhere)"""
        if isinstance(node, MMap) and node.obj is None:
            return
        self.orphans.append((node, container))
        del self.orphans[:-12]

    def learn_objects(self):
        """maps created implicitly by the implementation: adopt the real object (then judged like any other)."""
        def rec(mm):
            for k, sub in mm.maps.items():
                if sub.obj is None:
                    try:
                        sub.obj = mm.obj.maps[k]
                    except Exception as exc:
                        self.viol('intermediate_map_missing', name=k, exception=repr(exc))
                rec(sub)
        rec(self.model)

    # ---- operations ---------------------------------------------------------------------------------
    def do_set(self, mm, names_ix, kind, names=None):
        names = names if names is not None else [NAMES[i] for i in names_ix]
        real, node = self.make_value(kind)
        key = '/'.join(names)
        try:
            mm.obj[key] = real
        except Exception as exc:
            self.viol('setitem_raised', key=key, exception=repr(exc))
        self.model_set(mm, names, node)
        self.learn_objects()
        self.flags['set'] += 1
        if len(names) > 1:
            self.flags['composite_key'] += 1

    def op_set(self, names_ix, kind):
        self.do_set(self.model, names_ix, kind)

    def op_twice(self, names_ix, unhashable):
        """two value-equal handles assigned to one path, one after the other (full check after each)"""
        self.do_set(self.model, names_ix, 6 + unhashable)
        self.check()
        self.do_set(self.model, names_ix, 6)
        self.flags['equal_handle_assigned_over_equal_handle'] += 1

    def op_setsub(self, target, names_ix, kind):
        maps = self.all_maps()
        mm, _ = maps[target % len(maps)]
        self.do_set(mm, names_ix, kind)

    def op_push(self, target):
        maps = self.all_maps()
        mm, _ = maps[target % len(maps)]
        amp = self.case.get('amp') or 1
        for r in range(amp):
            mm.obj.handles.maps.insert(0, {})
            mm.layers.insert(0, {})
            if amp > 1 and r % 4 == 0 and r < amp // 2:
                # while the first half of the layers piles up, the handles of the map are assigned anew now and
                # then (as a reload would): one name lives in several layers, the newest one deep below the top
                names = mm.handle_names()
                if names:
                    self.do_set(mm, None, 0, names=[names[(r // 4) % len(names)]])
        self.flags['push_layer'] += 1
        if self.case.get('amp'):
            self.flags['many_layers'] += 1

    def op_clear(self, target):
        maps = self.all_maps()
        mm, path = maps[target % len(maps)]
        children = [(k, sub.obj, 'map') for k, sub in mm.maps.items()]
        for li, layer in enumerate(mm.layers):
            for k, h in layer.items():
                children.append((k, h, 'handle' if mm.visible(k) is h else 'shadowed handle'))
        if mm.maps:
            self.flags['clear_map_with_submaps'] += 1
        if sum(1 for layer in mm.layers if layer) >= 2:
            self.flags['clear_map_with_layered_handles'] += 1
        own_parent, own_key = mm.obj.parent, mm.obj.key
        try:
            mm.obj.clear()
        except Exception as exc:
            self.viol('clear_raised', exception=repr(exc))
        mm.maps = {}
        mm.layers = [{}]
        self.flags['clear'] += 1
        if mm.obj.maps:
            self.viol('clear_leaves_sub_maps', left=list(mm.obj.maps))
        left = [k for layer in mm.obj.handles.maps for k in layer]
        if left or len(mm.obj.handles) != 0:
            self.viol('clear_leaves_handles_reachable', left=left)
        for k, obj, what in children:
            if obj.parent is not None or obj.key is not None:
                self.viol('clear_does_not_detach_former_direct_child', name=k, kind=what,
                          parent=repr(obj.parent), key=obj.key)
        if mm.obj.parent is not own_parent or mm.obj.key != own_key:
            self.viol('clear_detached_the_map_itself', path=path)

    def op_reinsert(self, sel, names_ix):
        """Something an earlier assignment replaced (a handle, or a sub-map with all it contains) is inserted again:
        under another name in the map it used to live in (odd selectors, if that map is still part of the tree) or at
        a generated path.  It lives in one place again and records that place."""
        if not self.orphans:
            return
        node, container = self.orphans.pop(sel // 2 % len(self.orphans))
        real = node.obj if isinstance(node, MMap) else node
        reachable = [mm for mm, _p in self.all_maps()]
        if isinstance(node, MMap):
            inside = []

            def rec(m):
                inside.append(m)
                for sub in m.maps.values():
                    rec(sub)
            rec(node)
            if any(m in reachable for m in inside):
                return          # (part of it was moved back into the tree meanwhile)
        elif any(real is h for mm in reachable for layer in mm.layers for h in layer.values()):
            return
        if sel % 2 and container in reachable and not (isinstance(node, MMap) and container in inside):
            mm, names = container, [NAMES[(sel // 2 + names_ix[0]) % len(NAMES)]]
            self.flags['replaced_object_inserted_again_in_the_map_it_lived_in'] += 1
        else:
            mm, names = self.model, [NAMES[i] for i in names_ix]
        key = '/'.join(names)
        try:
            mm.obj[key] = real
        except Exception as exc:
            self.viol('setitem_raised', key=key, exception=repr(exc))
        self.model_set(mm, names, node)
        self.learn_objects()
        self.flags['replaced_object_inserted_again'] += 1

    def op_move(self, target, sel):
        """A sub-map is replaced by a new, empty map (latest assignment wins); some of its direct children are then
        inserted again under the new map - they MOVE, each object still lives in one place of the tree - and finally
        the replaced map, which is no longer part of the tree, is cleared: that must not disturb the tree."""
        cands = [(mm, path) for mm, path in self.all_maps() if path]
        if not cands:
            return
        mm, path = cands[target % len(cands)]
        parent = self.model
        for k in path[:-1]:
            parent = parent.maps[k]
        name = path[-1]
        old = mm.obj
        children = [(k, mm.visible(k), mm.visible(k)) for k in mm.handle_names()]
        children += [(k, sub.obj, sub) for k, sub in mm.maps.items()]
        shadowed = [h for li, layer in enumerate(mm.layers) for k, h in layer.items() if mm.visible(k) is not h]
        new = desper.ResourceMap()
        newmm = MMap(new)
        try:
            parent.obj[name] = new
        except Exception as exc:
            self.viol('setitem_raised', key=name, exception=repr(exc))
        self.model_set(parent, [name], newmm)
        self.check()
        moved, stay = [], list(shadowed)
        for idx, (k, obj, node) in enumerate(children):
            if idx == 0 or sel >> (idx % 6) & 1:
                try:
                    if idx % 2:
                        parent.obj[name + '/' + k] = obj        # through the parent, composite key
                    else:
                        new[k] = obj
                except Exception as exc:
                    self.viol('setitem_raised', key=name + '/' + k, exception=repr(exc))
                self.model_set(newmm, [k], node)
                moved.append(obj)
            else:
                stay.append(obj)
        self.check()
        try:
            old.clear()
        except Exception as exc:
            self.viol('clear_raised', exception=repr(exc), of='a map that was replaced in the tree')
        if old.maps or len(old.handles) != 0 or any(layer for layer in old.handles.maps):
            self.viol('clear_leaves_handles_reachable', of='a map that was replaced in the tree')
        mm.maps = {}
        mm.layers = [{} for _ in mm.layers]
        for obj in stay:
            if obj.parent is not None or obj.key is not None:
                self.viol('clear_does_not_detach_former_direct_child', of='a map that was replaced in the tree',
                          parent=repr(obj.parent), key=obj.key)
        self.flags['sub_map_replaced'] += 1
        if moved:
            self.flags['replaced_map_cleared_after_children_moved_into_the_tree'] += 1

    # ---- oracle -------------------------------------------------------------------------------------
    def read(self, names, expect, is_map):
        key = '/'.join(names)
        root = self.root
        sentinel = self
        try:
            g = root.get(key, sentinel)
        except Exception as exc:
            self.viol('get_raised', key=key, exception=repr(exc))
        try:
            item = root[key]
            raised = None
        except KeyError as exc:
            item, raised = None, exc
        except Exception as exc:
            self.viol('getitem_raised_other_than_KeyError', key=key, exception=repr(exc))
        if (g is sentinel) != (raised is not None):
            self.viol('get_default_iff_getitem_KeyError', key=key, get_returned_default=g is sentinel,
                      getitem_raised=repr(raised))
        if expect is None:
            if raised is None:
                self.viol('absent_path_resolves', key=key, got=repr(item))
            return
        if raised is not None:
            self.viol('present_path_raises_KeyError', key=key, expected=repr(expect))
        if is_map:
            if item is not expect or g is not expect:
                self.viol('map_path_denotes_other_object', key=key, item=repr(item), get=repr(g))
        else:
            if g is not expect:
                self.viol('get_returns_other_handle_than_latest_assigned', key=key, got=repr(g),
                          expected=repr(expect))
            if item is not expect.denotes or g() is not expect.denotes:
                self.viol('getitem_and_get_call_denote_different_resources', key=key, item=repr(item))
        # chained access
        try:
            cur = root
            for nme in names:
                cur = cur[nme]
        except Exception as exc:
            self.viol('chained_access_raised', key=key, exception=repr(exc))
        if cur is not item:
            self.viol('chained_access_differs_from_composed_key', key=key, chained=repr(cur), composed=repr(item))

    def check(self):
        for mm, path in self.all_maps():
            real = mm.obj
            # handle xor map per name, every layer considered
            hk = set()
            for layer in real.handles.maps:
                hk.update(layer)
            both = hk & set(real.maps)
            if both:
                self.viol('name_denotes_both_a_handle_and_a_map', path=path, names=sorted(both))
            # back-links of everything reachable under this map
            for k, sub in real.maps.items():
                if sub.parent is not real or sub.key != k:
                    self.viol('reachable_map_lacks_back_link', path=path + [k], parent=repr(sub.parent), key=sub.key,
                              implicit=k in mm.maps and getattr(mm.maps[k], 'implicit', None))
            for k in list(real.handles):
                h = real.handles[k]
                if h.parent is not real or h.key != k:
                    self.viol('reachable_handle_lacks_back_link', path=path + [k], parent=repr(h.parent), key=h.key)
            # climbing parents from this map ends at the root
            cur, hops = real, 0
            while cur.parent is not None and hops < 50:
                cur, hops = cur.parent, hops + 1
            if cur is not self.root:
                self.viol('climbing_parent_links_does_not_reach_the_root', path=path)
            # content, by paths
            if set(real.maps) != set(mm.maps):
                self.viol('sub_maps_differ_from_assignments', path=path, got=sorted(real.maps), expected=sorted(mm.maps))
            if hk != set(mm.handle_names()):
                self.viol('handle_names_differ_from_assignments', path=path, got=sorted(hk),
                          expected=sorted(mm.handle_names()))
            if path:
                self.read(path, real, True)
            for k in mm.handle_names():
                self.read(path + [k], mm.visible(k), False)
                self.read(path + [k, 'b'], None, False)         # through a handle
            for k in NAMES[:4] + ['zz']:
                if k not in mm.maps and mm.visible(k) is None:
                    self.read(path + [k], None, False)
                    self.read(path + [k, 'a'], None, False)

    def run(self):
        self.check()
        for self.step_ix, op in enumerate(self.case['ops']):
            getattr(self, 'op_' + op[0])(*op[1:])
            self.check()
        return self


def run_case(case):
    run = Run(case).run()
    f = run.flags
    nontrivial = (f['created_intermediate_maps'] or f['handle_replaces_subtree'] or f['map_replaces_handle']
                  or f['intermediate_replaces_handle'] or f['clear_map_with_submaps']
                  or f['clear_map_with_layered_handles'])
    return {'nontrivial': bool(nontrivial), 'classes': sorted(k for k, v in f.items() if v),
            'steps': len(case['ops'])}
