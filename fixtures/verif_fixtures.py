"""Importable types for C15 (world descriptions refer to them by dotted name)."""
import desper

LOG = []            # (kind, component, args) - reset by the check at the start of every case

CONST_A = ('const', 'A')
CONST_LIST = [1, 2, 3]
ZERO = 0
NOTHING = None
EMPTY = []
FALSE = False
EMPTY_TEXT = ''


class Holder:
    attr = {'held': True}

    class Inner:
        deep = ('deep', 'attr')


def helper_function():
    return 'helper'


class TransientError(Exception):
    """what user code (a constructor, a load) raises once in a while; the program catches it and tries again"""


FAIL = {'ctor': 0}      # > 0: the next constructor of a described component / processor raises TransientError


def _maybe_fail():
    if FAIL['ctor'] > 0:
        FAIL['ctor'] -= 1
        raise TransientError('constructor failed')


class _Rec:
    def __init__(self, *args, **kwargs):
        _maybe_fail()
        self.args = args
        self.kwargs = kwargs

    def __repr__(self):
        return '<%s %s>' % (type(self).__name__, self.kwargs.get('tag'))


class PlainA(_Rec):
    pass


class PlainB(_Rec):
    pass


@desper.event_handler('on_add', 'on_world_load')
class HandlerA(_Rec):
    def on_add(self, *a):
        LOG.append(('on_add', self, a))

    def on_world_load(self, *a):
        LOG.append(('on_world_load', self, a))


@desper.event_handler('on_add', 'on_world_load')
class HandlerB(HandlerA):
    pass


@desper.event_handler('on_world_load')
class LoadOnly(_Rec):
    def on_world_load(self, *a):
        LOG.append(('on_world_load', self, a))


COMPONENT_TYPES = ['PlainA', 'PlainB', 'HandlerA', 'HandlerB', 'LoadOnly']


class _Proc(desper.Processor):
    def __init__(self, *args, **kwargs):
        _maybe_fail()
        self.args = args
        self.kwargs = kwargs

    def process(self, dt=1):
        pass


class ProcA(_Proc):
    pass


class ProcB(_Proc):
    pass


class ProcC(_Proc):
    pass


@desper.event_handler('on_add')
class ProcH(_Proc):
    def on_add(self, *a):
        LOG.append(('proc_on_add', self, a))


PROCESSOR_TYPES = ['ProcA', 'ProcB', 'ProcC', 'ProcH']
