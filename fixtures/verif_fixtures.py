"""Importable types for C15 (world descriptions refer to them by dotted name)."""
import desper

LOG = []            # (kind, component, args) - reset by the check at the start of every case

CONST_A = ('const', 'A')
CONST_LIST = [1, 2, 3]
ZERO = 0
NOTHING = None
EMPTY = []
FALSE = False
EMPTY_TEXT = ''


class Holder:
    attr = {'held': True}

    class Inner:
        deep = ('deep', 'attr')


def helper_function():
    return 'helper'


class TransientError(Exception):
    """what user code (a constructor, a load) raises once in a while; the program catches it and tries again"""


FAIL = {'ctor': 0}      # > 0: the next constructor of a described component / processor raises TransientError


def _maybe_fail():
    if FAIL['ctor'] > 0:
        FAIL['ctor'] -= 1
        raise TransientError('constructor failed')


class _Rec:
    def __init__(self, *args, **kwargs):
        _maybe_fail()
        self.args = args
        self.kwargs = kwargs

    def __repr__(self):
        return '<%s %s>' % (type(self).__name__, self.kwargs.get('tag'))


class PlainA(_Rec):
    pass


class PlainB(_Rec):
    pass


@desper.event_handler('on_add', 'on_world_load')
class HandlerA(_Rec):
    def on_add(self, *a):
        LOG.append(('on_add', self, a))

    def on_world_load(self, *a):
        LOG.append(('on_world_load', self, a))


@desper.event_handler('on_add', 'on_world_load')
class HandlerB(HandlerA):
    pass


@desper.event_handler('on_world_load')
class LoadOnly(_Rec):
    def on_world_load(self, *a):
        LOG.append(('on_world_load', self, a))


class _Ctl(desper.Controller):
    def __init__(self, *args, **kwargs):
        _maybe_fail()
        self.args = args
        self.kwargs = kwargs

    def __repr__(self):
        return '<%s %s>' % (type(self).__name__, self.kwargs.get('tag'))

    def on_add(self, entity, world):
        super().on_add(entity, world)
        LOG.append(('on_add', self, (entity, world)))


# two sibling controllers, each adding ONE event of its own to what desper.Controller declares and defining only
# that callback (the usual way game code is written)
@desper.event_handler('on_world_load')
class CtlLoad(_Ctl):
    def on_world_load(self, *a):
        LOG.append(('on_world_load', self, a))


@desper.event_handler('on_update')
class CtlUpdate(_Ctl):
    def on_update(self, *a):
        LOG.append(('on_update', self, a))


COMPONENT_TYPES = ['PlainA', 'PlainB', 'HandlerA', 'HandlerB', 'LoadOnly', 'CtlLoad', 'CtlUpdate']
# roots under which every component type above is found by World.get
QUERY_ROOTS = (PlainA, PlainB, HandlerA, LoadOnly, CtlLoad, CtlUpdate)
# what each type DECLARES, written down here (never read back from __events__)
DECLARED_EVENTS = {'PlainA': None, 'PlainB': None, 'HandlerA': ('on_add', 'on_world_load'),
                   'HandlerB': ('on_add', 'on_world_load'), 'LoadOnly': ('on_world_load',),
                   'CtlLoad': ('on_add', 'on_world_load'), 'CtlUpdate': ('on_add', 'on_update')}


class _Proc(desper.Processor):
    def __init__(self, *args, **kwargs):
        _maybe_fail()
        self.args = args
        self.kwargs = kwargs

    def process(self, dt=1):
        pass


class ProcA(_Proc):
    pass


class ProcB(_Proc):
    pass


class ProcC(_Proc):
    pass


@desper.event_handler('on_add')
class ProcH(_Proc):
    def on_add(self, *a):
        LOG.append(('proc_on_add', self, a))


class ProcSub(ProcA):
    """a processor type derived from another listed type (a world may hold one processor of each exact type)"""


class ProcSubSub(ProcSub):
    pass


PROCESSOR_TYPES = ['ProcA', 'ProcB', 'ProcC', 'ProcH', 'ProcSub', 'ProcSubSub']
