"""A small package for ${dotted.name} references: importing it imports its sub-package, but not the modules below."""
from . import sub  # noqa: F401
