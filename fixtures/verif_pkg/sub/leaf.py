TOKEN = ('token of verif_pkg.sub.leaf',)


class Deep:
    attr = ['deep attribute']
