"""sub-package: `leaf` is a module of it that nobody imports up front"""
