#!/bin/sh
# tools/run_all.sh quick|thorough : run every registered check in turn (rewrites evidence/<ID>.json)
cd "$(dirname "$0")/.." || exit 2
for i in $(seq -w 1 20); do ./check C$i "$1" | tail -1; done
