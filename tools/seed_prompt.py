#!/venv/bin/python
"""Print the prompt for a seeding sub-agent: python tools/seed_prompt.py C01 a  -> worktree /tmp/seed-C01-a"""
import json, sys
pid, tag = sys.argv[1], sys.argv[2]
avoid = sys.argv[3] if len(sys.argv) > 3 else ''
for l in open('/verif/properties.jsonl'):
    p = json.loads(l)
    if p['id'] == pid:
        break
wt = '/tmp/seed-%s-%s' % (pid, tag)
out = '/tmp/seedout-%s-%s' % (pid, tag)
print(f"""You are helping to evaluate a verification effort for the small pure-Python library `desper` (an ECS World with event
dispatch, coroutine processor, resource map, vector math). You have your own scratch git worktree of the library at
{wt} (work ONLY there; do not read or touch /repo or /verif). Python: /venv/bin/python ; the test suite runs with
`cd {wt} && /venv/bin/python -m pytest -q -p no:cacheprovider` (111 tests, all pass now). The tests import the library
from the worktree itself (tests/context.py puts the worktree first on sys.path), and a script can do the same with
`sys.path.insert(0, '{wt}')` before `import desper`.

This semantic property of the library is supposed to hold:

  {pid} - {p['title']}
  Statement: {p['statement']}
  Quantified over: {p['quantifier']['text']}

Your task: make ONE small, realistic change to the library source under {wt}/desper (the kind of regression a
maintainer could plausibly introduce: an off-by-one, a dropped bookkeeping step, a wrong condition, a reordered
statement, a 'performance optimisation' that forgets a case, two sites that each look fine alone) that BREAKS this
property, while the code still imports and the WHOLE existing test suite still passes. The breakage must need something
specific to manifest - a multi-step sequence of operations, a particular combination of inputs, a particular ordering,
an unusual but legal input - not something that ordinary use would expose at once (so: not a change that fails on the
very first simplest call). Do not edit the tests. Do not add obviously artificial triggers such as magic constants or
`if x == 12345`.

{('Another contributor already seeded this change for the same property - pick a DIFFERENT mechanism and a different part of the code: ' + avoid) if avoid else ''}

Deliver, in the directory {out} (create it):
  1. patch.diff  - `git -C {wt} diff` of your change (must apply with `git apply` to a clean checkout of the same commit);
  2. demo.py     - a small standalone program taking the library root as argv[1] (default {wt}), which inserts it in
                   sys.path, imports desper, exercises the public API and exits 0 when the property holds on what it
                   exercises and exits 1 (printing what went wrong) when it does not. It must exit 1 with your change
                   applied and exit 0 on the unchanged library (verify both ways WITHOUT git stash - the stash is shared between worktrees and other people are working in sibling worktrees: save `git -C {wt} diff > {out}/patch.diff`, then `git -C {wt} checkout -- .` to test the unchanged library and `git -C {wt} apply {out}/patch.diff` to restore your change).
  3. notes.md    - 5-10 lines: what you changed, why the tests do not notice, what exactly is needed for it to manifest.
Confirm yourself that the test suite passes with the change applied. Leave the change applied in the worktree when
you finish. Reply with a short summary (what the change is, what it needs to manifest, and that you verified demo.py
both ways and the test suite).""")
