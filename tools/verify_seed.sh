#!/bin/sh
# tools/verify_seed.sh C01 a  : copy /tmp/seedout-C01-a into seeded/C01-a and confirm, in a fresh scratch worktree,
# that demo passes without the patch, the pinned tests pass with it, and demo fails with it.
pid=$1; tag=$2; src=/tmp/seedout-$pid-$tag; dst=/verif/seeded/$pid-$tag; wt=/tmp/vs-$pid-$tag
mkdir -p $dst && cp $src/patch.diff $src/demo.py $dst/ && cp $src/notes.md $dst/notes.md 2>/dev/null
git -C /repo worktree add -q --detach $wt HEAD || exit 2
( cd $wt
  timeout 300 /venv/bin/python $dst/demo.py $wt >/dev/null 2>&1; echo "demo_without_patch_rc=$?"
  git apply $dst/patch.diff || echo "PATCH DOES NOT APPLY"
  /venv/bin/python -m pytest -q -p no:cacheprovider 2>&1 | tail -1
  timeout 300 /venv/bin/python $dst/demo.py $wt >/tmp/vs-demo.out 2>&1; echo "demo_with_patch_rc=$?"; tail -3 /tmp/vs-demo.out )
git -C /repo worktree remove --force $wt
