#!/venv/bin/python
"""Regenerate MANIFEST.json from the table below (run from /verif)."""
import json
import os

HERE = os.path.dirname(os.path.dirname(os.path.abspath(__file__)))

BASELINE_OFF = ('cd /repo && env -u DESPER_VERIF /venv/bin/python -m pytest -ra -q -p no:cacheprovider '
                '--timeout=900 --continue-on-collection-errors')

# id -> (category, technique, level text, level note, design ref)
CHECKS = {
    'C01': ('exploration',
            'model-based stateful property testing (Hypothesis): generated World histories vs dict-of-dicts '
            'reference model, all queries compared after every prefix',
            'Randomised search over operation histories (thousands quick, ~80k thorough) with shrinking; every '
            'prefix of every history is compared against an independent reference model through the seven '
            'public queries. Gives high confidence for small-scope combinations (the code has no size '
            'thresholds), not a proof.',
            'Trusts CPython dict/set semantics, the reference model in vlib/worldops.py, Hypothesis as '
            'generator/shrinker. Order of query results is not compared.',
            'DESIGN.md section 3 / C01'),
    'C02': ('exploration',
            'model-based stateful property testing (Hypothesis): per-operation owed-callback multisets from a '
            'reference model vs the recorded callback log (trace invariant), dispatch toggles in the history',
            'Randomised search over histories with shrinking: for every operation of every history the set of '
            'lifecycle callbacks (receiver, entity, world) is compared with what a reference model owes, while '
            'enabled and across disable/enable cycles (operation order), including cleared and reused worlds; '
            'is_handler and probe delivery checked after every step. High confidence at small scope, no proof.',
            'Trusts the reference model; callback order inside one operation not compared; clear() and probes '
            'are issued only while enabled (dispatching is enabled first otherwise).',
            'DESIGN.md section 3 / C02'),
    'C04': ('fault_enumeration',
            'property-based testing (Hypothesis) of base histories + exhaustive enumeration of every (delivery '
            'position, fault kind) per base history; trace-invariant oracle; deterministic line budget for '
            'termination of the enabling assignment',
            'For every generated base history every delivery position is combined with every fault kind '
            '(RuntimeError, Quit, SwitchWorld, nested disable) and the run is closed with enable; enable. '
            'Invariants over the callback log: nothing while disabled, never twice, dispatch order per '
            'listener, completeness at every normally returning enable, exception identity, bounded enable. '
            'Exhaustive in fault positions per history, sampled in histories.',
            'Trusts the harness bookkeeping of which occurrences are pending; tolerates 0/1 further deliveries '
            'of the occurrence in flight when the fault fired; payloads of one event compare equal but are '
            'distinct objects; callbacks do not (un)register handlers.',
            'DESIGN.md section 3 / C04'),
    'C05': ('exploration',
            'model-based stateful property testing (Hypothesis): histories weighted to deferred deletion + '
            'operations on the same id, sentinel processor observing the frame start, deterministic line '
            'budget for termination',
            'Randomised search over histories with shrinking; after delete_entity and around every process() '
            'the observable state (entity_exists/entities/get_components/get, order of on_remove vs '
            'processors, exceptions of process, id reuse) is compared with a reference model; recovery after '
            'a legitimately failed frame is exercised. High confidence for small-scope combinations, no proof.',
            'Trusts the reference model in vlib/worldops.py; a hang is judged by a 200000-line budget inside '
            'desper; KeyError for deferred deletion of an id that owned nothing is accepted (pinned by the '
            'repository tests) but not demanded.',
            'DESIGN.md section 3 / C05'),
    'C06': ('exploration',
            'property-based testing (Hypothesis) over generated class DAGs: every class used as query type for '
            'the six query methods, oracle = issubclass/isinstance (independent of the __subclasses__ walk)',
            'Randomised search over class hierarchies incl. diamonds and deep multiple inheritance, component '
            'and processor flavours, all query types of each hierarchy checked exhaustively per case; removal '
            'queries on rebuilt worlds with full re-evaluation afterwards. Small-scope confidence, no proof.',
            'Trusts Python issubclass/isinstance as the definition of "subclass"; ABC virtual subclasses out of '
            'scope; any matching subclass instance accepted when no exact-type object exists.',
            'DESIGN.md section 3 / C06'),
    'C07': ('exploration',
            'model-based stateful property testing (Hypothesis): add/remove/process histories over generated '
            'Processor hierarchies vs a stable-sorted reference list, call log compared by identity',
            'Randomised search over histories with shrinking; after every step World.processors, get_processor '
            'and handler registration are compared with a reference list (stable by priority, one per exact '
            'type), every process(dt) call log is compared in order with the identical dt object, lifecycle '
            'callbacks of processors per operation. Small-scope confidence, no proof.',
            'Trusts the reference model; dispatching enabled throughout; priorities in [-3, 3] plus class '
            'defaults; any matching subclass accepted for remove_processor when no exact-type processor exists.',
            'DESIGN.md section 3 / C07'),
    'C03': ('exploration',
            'property-based testing (Hypothesis): generated event_handler class hierarchies checked against an '
            'independent fold, and add/remove/dispatch histories with re-entrant scripted callbacks checked by '
            'a per-dispatch-frame trace invariant',
            'Randomised search with shrinking over handler hierarchies and dispatcher histories including '
            'calls made from inside callbacks (depth <= 3); per frame exactly-once delivery on the mapped '
            'method with identical args/kwargs, nothing else called, is_handler vs model after every step, '
            'base-class mappings re-read after every decoration. Small-scope confidence, no proof.',
            'Trusts the frame bookkeeping of the harness; handlers added/removed during the iterating frame '
            'accepted either way; single lineage of __events__ per class.',
            'DESIGN.md section 3 / C03'),
    'C09': ('exploration',
            'model-based stateful property testing (Hypothesis): scripted generator bodies issuing start/kill/'
            'state from inside frames, external start/kill/process/forget histories, log validated entry by '
            'entry against a per-generator lifecycle model; weak references for the release clause',
            'Randomised search with shrinking over interleavings of start, kill, restart, state queries and '
            'process issued from outside and from inside coroutine bodies, over runnable, waiting and finished '
            'coroutines; state()/promise.state/promise.value compared after every step, every executed body '
            'step validated (due, once per frame, right resume point), error contracts (ValueError/TypeError) '
            'and release of forgotten finished/killed generators checked. Small-scope confidence, no proof.',
            'Trusts the lifecycle model; finished generators are not restarted; self-kill lets the current step '
            'finish; CPython reference counting for release.',
            'DESIGN.md section 3 / C09'),
    'C10': ('exploration',
            'property-based testing (Hypothesis) with harness-owned schedule: histories with drop points between '
            'operations and inside dispatches, listener iteration order injected as part of the case; '
            'trace-invariant oracle on receivers and weak references',
            'Randomised search with shrinking over registration/dispatch histories on a dispatcher and on a '
            'World, with handlers dying between operations and between two callbacks of one dispatch under '
            'generated listener orders; every callback receiver checked, weak references checked dead after '
            'the last strong reference is dropped, every dispatch must return and reach exactly the survivors.',
            'Relies on CPython reference counting; the order injection is a harness-side module global in '
            'desper.events (evidence field schedule_control_used shows whether it applied).',
            'DESIGN.md section 3 / C10'),
    'C08': ('exploration',
            'property-based testing (Hypothesis) of coroutine schedules against an exact-rational reference '
            'model with per-coroutine deadlines, plus exhaustive enumeration of two finite sub-spaces '
            '(itertools.product sharded over 16 processes)',
            'Randomised schedules (scripts, start points incl. from inside other coroutines, dt sequences with '
            'zeros) compared frame by frame with a reference model; the thorough tier enumerates completely '
            '{2 coroutines, scripts <= 3, staggered starts, 4 frames} and {3 coroutines, scripts <= 2, 4 frames} '
            'over yield values {None,1/2,1,5/2} and dt values {0,1/2,1,3} (7.5M schedules). Exhaustive on those '
            'sub-spaces, sampled elsewhere.',
            'Values are multiples of 1/8 so float arithmetic is exact; order among coroutines woken in the same '
            'frame not compared; a coroutine started from inside a frame may first run in that frame or the next.',
            'DESIGN.md section 3 / C08'),
    'C11': ('exploration',
            'model-based stateful property testing (Hypothesis): set/clear/push_layer histories over a '
            'ResourceMap vs a nested reference model, all access paths compared after every step, back-links '
            'checked by walking the real tree',
            'Randomised search with shrinking over histories with plain and composite keys (odd components '
            'included), handle / map / pre-populated / layered values; after every step every model path and '
            'sampled absent paths are read through [], chained [] and get()(), the get-default/KeyError '
            'equivalence, handle-xor-map and parent/key back-links of every reachable node are checked, clear() '
            'post-conditions included. Small-scope confidence, no proof.',
            'Trusts the nested reference model; each object inserted at most once; shadowed handles examined '
            'only at clear().',
            'DESIGN.md section 3 / C11'),
    'C12': ('exploration',
            'model-based stateful property testing (Hypothesis): counting handles with fresh odd/falsy load '
            'values, accesses through every access path incl. static snapshots and SimpleLoop.switch, '
            'interleaved with clear(); per-handle cache model',
            'Randomised search with shrinking over access/clear histories on a small layered tree; every '
            'access is checked for object identity and for the number of load() runs, Handle.cached after '
            'every step; values include None, 0, empty containers, NaN and objects with hostile __bool__/__eq__. '
            'Small-scope confidence, no proof.',
            'Trusts the per-handle model; fixed tree layout with identifier names; singletons judged by the '
            'load counter.',
            'DESIGN.md section 3 / C12'),
    'C13': ('exploration',
            'property-based testing (Hypothesis): generated frame scripts of switch()/raise SwitchWorld/probe '
            'requests issued from processors, on_update callbacks and coroutines over recording world handles '
            'run by a real SimpleLoop; trace-invariant oracle over (instance, event) and (instance, process) '
            'records',
            'Randomised search with shrinking over switch sequences among 2-4 handles incl. self-switches, all '
            'clear-flag combinations, cached and unloaded targets, three request sources and probes to left '
            'worlds; the recorded trace is checked for frame abandonment, the instance processed next, '
            'in/out event counts, order relative to load-time callbacks and held events, muting of left worlds '
            'and freshness under clear flags. Small-scope confidence, no proof.',
            'Event arguments compared only without clear flags; load counts recorded, not asserted; switch() '
            'called with the current world or through desper.default_loop.',
            'DESIGN.md section 3 / C13'),
    'C14': ('fault_enumeration',
            'property-based testing (Hypothesis) of base scripts (clock readings, worlds, restarts) + exhaustive '
            'enumeration of every single fault position (iteration x processor x action) per base script; '
            'oracle = exact model of the clock',
            'For every generated base script every (iteration, processor position, action) with action in '
            '{Quit, quit_loop(world), quit_loop(), switch(), raise SwitchWorld, RuntimeError} is executed, '
            'plus generated multi-fault scripts; dt of every processor call, frame abandonment, state after '
            'start() returns, on_quit counts, exception identity, clock reads per iteration and dt == 0 after '
            'every restart are compared with the model. Exhaustive in single fault positions per script, '
            'sampled in scripts.',
            'Readings are multiples of 1/8 (exact differences); quit_loop targets the current world; clear '
            'flags of switch are left to C13; Loop.running after a non-Quit exception not judged.',
            'DESIGN.md section 3 / C14'),
    'C15': ('exploration',
            'property-based testing (Hypothesis): generated world descriptions (dict and JSON file drivers) '
            'with references into a fixture module and a generated resource tree; oracle = independent '
            'reference interpretation of the description',
            'Randomised search with shrinking over descriptions (processors, entities, optional ids, args and '
            'kwargs from a pool of JSON values incl. near-miss marker strings, ${..}/$res{..}/$handle{..} '
            'references, world handle stored at depth 1-3); the loaded world is compared with the reference '
            'interpretation: processor types in order, entities, constructor arguments (identity for '
            'references), disabled on return, callback order after enabling.',
            'Whole-string top-level references only; ids outside the automatic range; fixture types in '
            'fixtures/verif_fixtures.py.',
            'DESIGN.md section 3 / C15'),
    'C16': ('exploration',
            'property-based testing (Hypothesis): generated file trees materialised in a temp dir, generated '
            'rules / options / repeated calls, differential oracle = independent os.walk reference producing '
            'the expected (key, rule, file) productions',
            'Randomised search with shrinking over directory trees (odd names, double extensions, empty dirs, '
            'equal stems), rule lists (filters, extra args, missing and regular-file paths, overlapping), both '
            'option values at construction and per call, repeated population and root override; the full set '
            'of reachable keys in all layers is compared with the reference, constructor arguments included.',
            'Local case-sensitive file system, no hidden files, no symlinks; which same-key file of one call '
            'wins is not fixed; directory names and file stems from disjoint pools.',
            'DESIGN.md section 3 / C16'),
    'C17': ('exploration',
            'property-based testing (Hypothesis): generated resource trees with identifier and non-identifier '
            'names, round-trip (mirror) oracle against the source map, mutation attempts on every snapshot node',
            'Randomised search with shrinking over tree shapes and name mixes (keywords, underscores, '
            'dunder-shaped, private-looking, empty, blanks, dots, digits first, non-ASCII, layered handles); '
            'item / attribute / get access compared with the source for every node, absent near-miss names '
            'must raise, every setattr/delattr must raise and leave the mirror intact.',
            'Names colliding with members of the snapshot type are excluded as the property says; '
            'snapshot.__dict__ is not manipulated directly.',
            'DESIGN.md section 3 / C17'),
    'C18': ('exploration',
            'property-based testing (Hypothesis): exact rational evaluation of every polynomial operation '
            'against independent textbook implementations (randomised identity testing, Schwartz-Zippel '
            'bound), exhaustive enumeration of all swizzle strings per case, tolerance-based checks for the '
            'square-root / angle operations',
            'Every case evaluates all operations: vector arithmetic, dot, cross, lerp, scale, clamp, matrix '
            'product (Mat3/Mat4), associativity, identity, matrix-vector convention, transpose, inverse vs '
            'Gaussian-elimination determinant incl. constructed singular matrices and the warning, '
            'translation/scale/orthogonal-projection constructors, all 481 swizzle strings, and the float '
            'operations with a stated tolerance; a wrong polynomial survives one case with probability <= '
            '4/20001. Not a proof of the identities.',
            'Exact regime uses fractions.Fraction (duck-typed through the tuple classes); matrices that hold '
            'float literals (identity, from_translation, from_scale) are exercised with integer operands; float '
            'regime limited to magnitudes in {0} u [1e-3, 1e3].',
            'DESIGN.md section 3 / C18'),
    'C19': ('exploration',
            'differential property-based testing (Hypothesis): twin worlds (shorthand through a controller vs '
            'the corresponding World call), Prototype subclasses built with type() vs a specification '
            'function, OnUpdateProcessor vs callback log',
            'Randomised search with shrinking over world histories, controller variants (attached, bare, plain '
            'protocol object, detached, entity pending deletion) and all twelve shorthands incl. reference '
            'get/set/del for components and processors; results, exception types and the complete observable '
            'state of both worlds compared, also after the next frame; prototypes over every combination of '
            'construction sources, prefixes and subclass overrides; on_update relay with arbitrary dt objects.',
            'Dispatching enabled in the twin worlds; reference assignments satisfy the descriptor\'s isinstance '
            'assertion; sources tag what they build.',
            'DESIGN.md section 3 / C19'),
    'C20': ('exploration',
            'property-based testing (Hypothesis): assignment histories over Transform2D/3D instances with '
            'generated listeners; per-assignment oracle on the callback log and property reads',
            'Randomised search with shrinking over transforms (default and explicit constructor arguments), '
            'listener subscriptions and assignment histories (plain and augmented, vectors and tuples, 2D '
            'rotations concentrated outside [0, 360)); after every assignment the read-back value, the exact '
            'set of notified listeners, the carried argument and the isolation of other instances are checked.',
            'NaN/inf rotations excluded; listeners do not re-enter the transforms.',
            'DESIGN.md section 3 / C20'),
}

ALL = ['C%02d' % i for i in range(1, 21)]


def main():
    checks = []
    for pid in ALL:
        if pid not in CHECKS:
            continue
        cat, tech, text, note, ref = CHECKS[pid]
        checks.append({
            'property_id': pid,
            'quick_cmd': './check %s quick' % pid,
            'thorough_cmd': './check %s thorough' % pid,
            'evidence_file': 'evidence/%s.json' % pid,
            'replay_cmd_template': './check %s --replay {path}' % pid,
            'engine': 'desper-pbt',
            'level_claimed': {'category': cat, 'text': text, 'design_ref': ref},
            'level_note': note,
            'technique': tech,
        })
    na = [{'property_id': pid,
           'reason': 'check under construction in this session (planned in DESIGN.md section 3); not claimed '
                     'until it is quiet on the unchanged tree and kills its mutants'}
          for pid in ALL if pid not in CHECKS]
    manifest = {
        'version': 1,
        'setup_cmd': '(/venv/bin/python -c "import hypothesis" || /venv/bin/pip install --no-index '
                     '--find-links /opt/veriftools/wheels hypothesis) && (/venv/bin/pip install -q --no-index '
                     '--find-links /opt/veriftools/wheels --target /verif/.deps atheris || true)',
        'hooks': {
            'guard': 'DESPER_VERIF',
            'enable': 'none needed: no hooks were added to /repo; all observation goes through the public API '
                      '(checks import /repo from its working tree in a fresh interpreter)',
            'baseline_off_cmd': BASELINE_OFF,
            'source_commits': [],
            'add_only': True,
        },
        'engines': [{
            'name': 'desper-pbt',
            'path': 'vlib/runner.py',
            'serves_properties': [c['property_id'] for c in checks],
            'kind_free_text': 'Hypothesis-driven property-based testing: data-encoded histories/inputs, '
                              'reference models and trace-invariant oracles, shrinking to JSON replay files, '
                              '16-way sharding for the thorough tier, finite sub-spaces enumerated exhaustively',
        }],
        'checks': checks,
        'notes': 'Every check: ./check <ID> quick|thorough; exit 0 held / exit 1 + VIOLATION line / exit 2 '
                 'harness error. VERIF_SEED and VERIF_TIER honoured. Known findings: KNOWN_FINDINGS.txt.',
        'not_applicable': na,
    }
    with open(os.path.join(HERE, 'MANIFEST.json'), 'w') as f:
        json.dump(manifest, f, indent=1)
        f.write('\n')


if __name__ == '__main__':
    main()
