#!/bin/sh
# tools/soak.sh <first seed> <last seed> : run every registered quick check at each seed (evidence not
# rewritten), print anything that is not exit 0.
cd "$(dirname "$0")/.." || exit 2
for s in $(seq "$1" "$2"); do
  for i in $(seq -w 1 20); do
    echo "C$i $s"
  done
done | xargs -P 14 -L 1 sh -c 'VERIF_SEED=$1 VERIF_NO_EVIDENCE=1 ./check $0 quick >/tmp/soak-$0-$1.log 2>&1; rc=$?; [ $rc -ne 0 ] && echo "$0 seed=$1 rc=$rc" && tail -3 /tmp/soak-$0-$1.log; rm -f /tmp/soak-$0-$1.log'
echo soak done
