#!/venv/bin/python
"""tools/cross.py <seeded-id> [...] : apply seeded/<id>/patch.diff to a scratch copy of /repo and run EVERY quick
check against it; prints which properties' checks detect the change (corpus not replayed, evidence untouched)."""
import concurrent.futures, os, shutil, subprocess, sys, tempfile
HERE = os.path.dirname(os.path.dirname(os.path.abspath(__file__)))


def one(sid):
    scratch = tempfile.mkdtemp(prefix='cross-')
    try:
        dst = os.path.join(scratch, 'repo')
        shutil.copytree('/repo', dst, ignore=shutil.ignore_patterns('.git', '__pycache__'))
        subprocess.run(['patch', '-p1', '-s', '-i', os.path.join(HERE, 'seeded', sid, 'patch.diff')], cwd=dst, check=True)
        env = dict(os.environ, VERIF_REPO=dst, VERIF_NO_EVIDENCE='1', VERIF_NO_CORPUS='1')
        out = []
        for i in range(1, 21):
            pid = 'C%02d' % i
            r = subprocess.run([os.path.join(HERE, 'check'), pid, 'quick'], env=env, capture_output=True, text=True)
            if r.returncode != 0:
                line = [l for l in r.stdout.splitlines() if l.startswith('violated clause')] or [r.stdout[-200:] + r.stderr[-300:]]
                out.append('%s rc=%d %s' % (pid, r.returncode, line[0][:150]))
        return sid, out
    finally:
        shutil.rmtree(scratch, ignore_errors=True)


if __name__ == '__main__':
    with concurrent.futures.ThreadPoolExecutor(8) as ex:
        for sid, out in ex.map(one, sys.argv[1:]):
            print(sid, '->', 'nobody' if not out else '')
            for l in out:
                print('    ', l)
