#!/bin/sh
# tools/rebase_seed.sh <seeded-id> : re-base seeded/<id>/patch.diff onto /repo HEAD with patch(1) fuzz; keeps the
# original as patch.orig-<oldbase>.diff.  Prints REJECT when a hunk does not apply (then re-base by hand).
id=$1; d=/verif/seeded/$id; tmp=$(mktemp -d /tmp/rb-XXXXXX)
mkdir -p $tmp/a $tmp/b && cp -r /repo/desper $tmp/a/ && cp -r /repo/desper $tmp/b/
if (cd $tmp/b && patch -p1 -s --fuzz=3 < $d/patch.diff >/dev/null 2>&1); then
  find $tmp/b -name '*.orig' -delete
  (cd $tmp && diff -ru a/desper b/desper | grep -v '^Only in' > new.diff; true)
  n=$(ls $d/patch.orig-*.diff 2>/dev/null | wc -l)
  [ "$n" = 0 ] && cp $d/patch.diff $d/patch.orig-$(git -C /repo rev-parse --short HEAD~1).diff
  cp $tmp/new.diff $d/patch.diff
  git -C /repo apply --check $d/patch.diff && echo "$id rebased"
else
  echo "$id REJECT"
fi
rm -rf $tmp
